(* C13/ProofsLex.v — single-token lemmas: string constants, identifiers, comments. *)
From Coq Require Import Strings.String.
Require Import PG.Base.Bytes PG.Base.Value PG.C13.Lib PG.C13.Model PG.C13.Spec.
Import List ListNotations.
#[local] Open Scope list_scope.

(* ---------- bytes ---------- *)
Lemma beq_refl c : beq c c = true.
Proof. unfold beq. apply Byte.byte_dec_lb. reflexivity. Qed.
Lemma beq_eq c d : beq c d = true -> c = d.
Proof. unfold beq. apply Byte.byte_dec_bl. Qed.
Lemma beq_neq c d : c <> d -> beq c d = false.
Proof. intros H. destruct (beq c d) eqn:E; [apply beq_eq in E; contradiction|reflexivity]. Qed.
Lemma beq_false c d : beq c d = false -> c <> d.
Proof. intros H ->. rewrite beq_refl in H. discriminate. Qed.
Lemma beq_sym c d : beq c d = beq d c.
Proof.
  destruct (beq c d) eqn:E.
  - apply beq_eq in E. subst. symmetry. apply beq_refl.
  - symmetry. apply beq_neq. intros ->. rewrite beq_refl in E. discriminate.
Qed.
Lemma bytes_eqb_eq a : forall b, bytes_eqb a b = true <-> a = b.
Proof.
  induction a as [|x a IH]; intros [|y b]; cbn [bytes_eqb]; split; intros H; try discriminate; try reflexivity.
  - apply andb_true_iff in H. destruct H as [H1 H2]. apply beq_eq in H1. apply IH in H2. subst. reflexivity.
  - injection H as -> ->. rewrite beq_refl. cbn. apply IH. reflexivity.
Qed.
Lemma bytes_eqb_refl a : bytes_eqb a a = true.
Proof. apply bytes_eqb_eq. reflexivity. Qed.

Lemma prefix_app p : forall r, prefix p (p ++ r) = true.
Proof. induction p as [|x p IH]; intros r; cbn; [reflexivity|]. rewrite beq_refl. cbn. apply IH. Qed.
Lemma skipn_app_len {A} (p r : list A) : skipn (length p) (p ++ r) = r.
Proof. induction p; cbn; auto. Qed.

Lemma span_app p a : forall rest, forallb p a = true ->
  (match rest with [] => True | c :: _ => p c = false end) -> span p (a ++ rest) = (a, rest).
Proof.
  induction a as [|x a IH]; intros rest Ha Hr.
  - cbn [app]. destruct rest as [|c r]; [reflexivity|]. cbn [span]. rewrite Hr. reflexivity.
  - cbn [forallb] in Ha. apply andb_true_iff in Ha. destruct Ha as [Hx Ha].
    cbn [app span]. rewrite Hx. rewrite (IH rest Ha Hr). reflexivity.
Qed.

Lemma forallb_app {A} (p : A -> bool) a b : forallb p (a ++ b) = forallb p a && forallb p b.
Proof. induction a; cbn; auto. rewrite IHa. apply andb_assoc. Qed.
Lemma forallb_flat_map {A B} (p : B -> bool) (f : A -> list B) l :
  (forall x, forallb p (f x) = true) -> forallb p (flat_map f l) = true.
Proof. intros H. induction l; cbn; auto. rewrite forallb_app, H, IHl. reflexivity. Qed.

(* ---------- string constants: the quote-doubling form ---------- *)
Definition lit_bnd (rest : bytes) : Prop :=
  match rest with [] => True | c :: _ => c <> "'"%byte /\ is_space c = false /\ c <> "-"%byte end.

Lemma scan_sq_closed rest : lit_bnd rest -> scan_sq SqClosed rest = Some ([], rest).
Proof.
  destruct rest as [|c r]; intros H; [reflexivity|].
  destruct H as (H1 & H2 & H3). cbn [scan_sq].
  rewrite (beq_neq _ _ H1), H2, (beq_neq _ _ H3). reflexivity.
Qed.

Lemma scan_sq_doubled s : forall rest, lit_bnd rest ->
  scan_sq SqIn (double_char "'"%byte s ++ "'"%byte :: rest) = Some (s, rest).
Proof.
  induction s as [|a s IH]; intros rest Hb.
  - cbn [double_char flat_map app scan_sq]. rewrite ?beq_refl. apply scan_sq_closed, Hb.
  - unfold double_char in *. cbn [flat_map]. destruct (beq a "'"%byte) eqn:E.
    + apply beq_eq in E. subst a. cbn [app scan_sq]. rewrite ?beq_refl.
      cbn [scan_sq]. rewrite ?beq_refl. rewrite (IH rest Hb). reflexivity.
    + cbn [app scan_sq]. rewrite E. rewrite (IH rest Hb). reflexivity.
Qed.

Lemma lex_tok_sq s rest : lit_bnd rest ->
  lex_tok ("'"%byte :: double_char "'"%byte s ++ "'"%byte :: rest) = Some (TString s, rest).
Proof.
  intros Hb. unfold lex_tok.
  change (beq "'"%byte "-"%byte) with false. change (beq "'"%byte """"%byte) with false.
  change (beq "'"%byte "'"%byte) with true. cbv iota.
  rewrite (scan_sq_doubled s rest Hb). reflexivity.
Qed.

(* ---------- string constants: the dollar-quoted form ---------- *)
(* a delimiter $body$ whose body has no $ *)
Definition nodollar (body : bytes) : Prop := forallb (fun c => negb (beq c "$"%byte)) body = true.

(* if the rest of a delimiter matches at u ++ "$" ++ X it already matches at u ++ "$" *)
Lemma prefix_tail_dollar body : nodollar body -> forall u X,
  prefix (body ++ ["$"%byte]) (u ++ "$"%byte :: X) = true -> prefix (body ++ ["$"%byte]) (u ++ ["$"%byte]) = true.
Proof.
  unfold nodollar. induction body as [|b body IH]; intros Hb u X H.
  - destruct u as [|a u]; cbn [app prefix] in *; [reflexivity|].
    rewrite andb_true_r in H. rewrite H. reflexivity.
  - cbn [forallb] in Hb. apply andb_true_iff in Hb. destruct Hb as [Hb1 Hb2].
    destruct u as [|a u]; cbn [app prefix] in *.
    + apply andb_true_iff in H. destruct H as [H _]. rewrite H in Hb1. discriminate.
    + apply andb_true_iff in H. destruct H as [H1 H2]. rewrite H1. cbn. exact (IH Hb2 u X H2).
Qed.

Lemma prefix_tag_early body : nodollar body -> forall a u X,
  prefix ("$"%byte :: body ++ ["$"%byte]) ((a :: u) ++ ["$"%byte]) = false ->
  prefix ("$"%byte :: body ++ ["$"%byte]) ((a :: u) ++ ("$"%byte :: body ++ ["$"%byte]) ++ X) = false.
Proof.
  intros Hb a u X H.
  destruct (prefix _ ((a :: u) ++ _ ++ X)) eqn:E; [|reflexivity].
  cbn [app prefix] in E, H. apply andb_true_iff in E. destruct E as [E1 E2].
  rewrite E1 in H. cbn in H.
  rewrite <- app_assoc in E2. cbn [app] in E2.
  rewrite (prefix_tail_dollar body Hb u _ E2) in H. discriminate.
Qed.

Lemma scan_dolq_unfold tag t :
  scan_dolq tag t = if prefix tag t then Some ([], skipn (length tag) t)
                    else match t with
                         | [] => None
                         | c :: r => match scan_dolq tag r with Some (s, rest) => Some (c :: s, rest) | None => None end
                         end.
Proof. destruct t; reflexivity. Qed.

Lemma scan_dolq_find body : nodollar body -> forall s rest,
  let tag := "$"%byte :: body ++ ["$"%byte] in
  contains (s ++ ["$"%byte]) tag = false -> scan_dolq tag (s ++ tag ++ rest) = Some (s, rest).
Proof.
  intros Hb s rest tag. induction s as [|a s IH]; intros Hc.
  - cbn [app]. rewrite scan_dolq_unfold, prefix_app, skipn_app_len. reflexivity.
  - cbn [app contains] in Hc. apply orb_false_iff in Hc. destruct Hc as [Hc1 Hc2].
    change (a :: s ++ ["$"%byte]) with ((a :: s) ++ ["$"%byte]) in Hc1.
    pose proof (prefix_tag_early body Hb a s rest Hc1) as Hp. fold tag in Hp.
    rewrite scan_dolq_unfold. rewrite Hp.
    change ((a :: s) ++ tag ++ rest) with (a :: (s ++ tag ++ rest)).
    cbv iota. rewrite (IH Hc2). reflexivity.
Qed.

(* the tags tried by quoteLiteral: $str$ and $str<digits>$ *)
Definition tagform (t : bytes) : Prop :=
  exists ds, forallb is_digit ds = true /\ t = "$"%byte :: (B "str" ++ ds) ++ ["$"%byte].

Lemma digit_dolq c : is_digit c = true -> is_dolq_cont c = true /\ negb (beq c "$"%byte) = true.
Proof. destruct c; intros H; try discriminate H; split; reflexivity. Qed.

Lemma tagform_body ds : forallb is_digit ds = true ->
  nodollar (B "str" ++ ds) /\ forallb is_dolq_cont (B "str" ++ ds) = true.
Proof.
  intros H. unfold nodollar. rewrite !forallb_app. split.
  - apply andb_true_iff. split; [reflexivity|]. apply forallb_forall. intros c Hc.
    rewrite forallb_forall in H. apply digit_dolq, H, Hc.
  - apply andb_true_iff. split; [reflexivity|]. apply forallb_forall. intros c Hc.
    rewrite forallb_forall in H. apply digit_dolq, H, Hc.
Qed.

Lemma lex_tok_dollar t s rest : tagform t -> contains (s ++ ["$"%byte]) t = false ->
  lex_tok (t ++ s ++ t ++ rest) = Some (TString s, rest).
Proof.
  intros (ds & Hds & ->) Hc. destruct (tagform_body ds Hds) as [Hnd Hcont].
  set (body := B "str" ++ ds) in *.
  change (("$"%byte :: body ++ ["$"%byte]) ++ s ++ ("$"%byte :: body ++ ["$"%byte]) ++ rest)
    with ("$"%byte :: (body ++ ["$"%byte]) ++ s ++ ("$"%byte :: body ++ ["$"%byte]) ++ rest).
  unfold lex_tok.
  change (beq "$"%byte "-"%byte) with false. change (beq "$"%byte """"%byte) with false.
  change (beq "$"%byte "'"%byte) with false. change (beq "$"%byte "$"%byte) with true. cbv iota.
  rewrite <- app_assoc.
  rewrite (span_app is_dolq_cont body _ Hcont) by reflexivity.
  cbn [app]. change (beq "$"%byte "$"%byte) with true.
  assert (Hb0 : match body with [] => true | b0 :: _ => is_ident_start b0 end = true) by reflexivity.
  rewrite Hb0. cbn [andb].
  pose proof (scan_dolq_find body Hnd s rest Hc) as Hs. cbn zeta in Hs.
  change (s ++ "$"%byte :: (body ++ ["$"%byte]) ++ rest) with (s ++ ("$"%byte :: body ++ ["$"%byte]) ++ rest).
  rewrite Hs. reflexivity.
Qed.

(* ---------- quoteLiteral ---------- *)
Section Literal.
  Hypothesis dec_digits : forall n, 0 <= n -> forallb is_digit (dec n) = true.

  Lemma tag0_form : tagform tag0.
  Proof. exists []. split; reflexivity. Qed.
  Lemma tag_n_form i : 0 <= i -> tagform (tag_n i).
  Proof.
    intros Hi. exists (dec i). split; [apply dec_digits, Hi|].
    unfold tag_n. reflexivity.
  Qed.

  Lemma find_tag_some fuel : forall i tag s1 out, 0 <= i -> tagform tag ->
    find_tag fuel i tag s1 = Some out -> tagform out /\ contains s1 out = false.
  Proof.
    induction fuel as [|f IH]; intros i tag s1 out Hi Ht H; cbn [find_tag] in H.
    - destruct (contains s1 tag) eqn:E; [discriminate|]. injection H as <-. auto.
    - destruct (contains s1 tag) eqn:E.
      + apply (IH (i + 1) (tag_n i) s1 out); [lia|apply tag_n_form, Hi|exact H].
      + injection H as <-. auto.
  Qed.

  (* every output of quoteLiteral other than the out-of-fuel marker [] is one string constant *)
  Lemma quoteLiteral_lex_partial s rest : lit_bnd rest -> quoteLiteral s <> [] ->
    lex_tok (quoteLiteral s ++ rest) = Some (TString s, rest).
  Proof.
    intros Hb Hne. unfold quoteLiteral in *.
    destruct (contains s ["'"%byte] && contains s ["\"%byte]).
    - destruct (find_tag _ 0 tag0 (s ++ ["$"%byte])) as [tag|] eqn:E; [|contradiction].
      destruct (find_tag_some _ _ _ _ _ (Z.le_refl 0) tag0_form E) as [Hf Hc].
      rewrite <- !app_assoc. apply lex_tok_dollar; assumption.
    - cbn [app]. rewrite <- app_assoc. cbn [app]. apply lex_tok_sq, Hb.
  Qed.
End Literal.
