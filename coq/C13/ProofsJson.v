(* C13/ProofsJson.v — "JSON values stay valid JSON": for every Go value (nested lists and maps of any
   depth, keys and strings = arbitrary bytes) the text produced by the model's writeJSONValue /
   mapToJSON is accepted by the RFC 8259 reader of the spec and denotes [to_json v].
   The float renderings are oracles; what is assumed about them (and about %d, proved in
   ProofsNum.v) is stated as hypotheses of Section Json. *)
From Coq Require Import Strings.String.
Require Import PG.Base.Bytes PG.Base.Value PG.C13.Lib PG.C13.Model PG.C13.Spec.
Import List ListNotations.
#[local] Open Scope list_scope.

(* ====================================================================== 1. strings *)
(* one source byte, escaped, is read back as that byte (256 cases by computation) *)
Lemma json_escape_one : forall c r,
  json_string (json_escape_char c ++ r) =
  match json_string r with Some (s, rest) => Some (c :: s, rest) | None => None end.
Proof. destruct c; intros r; reflexivity. Qed.

Theorem json_string_roundtrip : forall s rest,
  json_string (flat_map json_escape_char s ++ """"%byte :: rest) = Some (s, rest).
Proof.
  induction s as [|c s IH]; intros rest.
  - reflexivity.
  - cbn [flat_map]. rewrite <- app_assoc, json_escape_one, IH. reflexivity.
Qed.

(* ====================================================================== 2. generic helpers *)
(* what may follow a value inside a document *)
Definition json_bnd (rest : bytes) : Prop :=
  match rest with [] => True | c :: _ => c = ","%byte \/ c = "]"%byte \/ c = "}"%byte end.

Lemma span_app (p : byte -> bool) (a rest : bytes) :
  forallb p a = true ->
  match rest with [] => True | c :: _ => p c = false end ->
  span p (a ++ rest) = (a, rest).
Proof.
  intros Ha Hr. induction a as [|x a IH].
  - cbn [app]. destruct rest as [|c r]; [reflexivity|]. cbn [span]. rewrite Hr. reflexivity.
  - cbn [forallb] in Ha. apply andb_true_iff in Ha. destruct Ha as [Hx Ha].
    cbn [app span]. rewrite Hx, (IH Ha). reflexivity.
Qed.

Lemma json_bnd_not_numchar rest :
  json_bnd rest -> match rest with [] => True | c :: _ => is_json_numchar c = false end.
Proof.
  destruct rest as [|c r]; [trivial|]. cbn [json_bnd].
  intros [-> | [-> | ->]]; reflexivity.
Qed.

Lemma json_skip_nws c r : is_json_ws c = false -> json_skip (c :: r) = c :: r.
Proof. intros H. unfold json_skip. cbn [dropwhile]. rewrite H. reflexivity. Qed.

Lemma join_cons (sep x : bytes) (r : list bytes) :
  r <> [] -> join sep (x :: r) = x ++ sep ++ join sep r.
Proof. destruct r; [congruence|reflexivity]. Qed.
Lemma join_head (sep x : bytes) (r : list bytes) : exists u, join sep (x :: r) = x ++ u.
Proof.
  destruct r as [|y r].
  - exists []. cbn [join]. rewrite app_nil_r. reflexivity.
  - eexists. reflexivity.
Qed.

(* ---------- unfoldings of the reader on the shapes the writer produces ---------- *)
Lemma json_value_string f t :
  json_value (S f) (""""%byte :: t) =
  match json_string t with Some (s, rest) => Some (JStr s, rest) | None => None end.
Proof. reflexivity. Qed.

Lemma json_value_arr f r :
  json_value (S f) ("["%byte :: r) =
  match json_skip r with
  | c2 :: r2 => if beq c2 "]"%byte then Some (JArr [], r2)
                else match json_elements f (c2 :: r2) with Some (l, rest) => Some (JArr l, rest) | None => None end
  | [] => None
  end.
Proof. reflexivity. Qed.

Lemma json_value_obj_q f r :
  json_value (S f) ("{"%byte :: """"%byte :: r) =
  match json_members f (""""%byte :: r) with Some (m, rest) => Some (JObj m, rest) | None => None end.
Proof. reflexivity. Qed.

Lemma json_value_num f c t :
  is_json_numchar c = true ->
  json_value (S f) (c :: t) =
  (let '(nt, rest) := span is_json_numchar (c :: t) in
   if json_num_ok nt then Some (JNum nt, rest) else None).
Proof. intros H. destruct c; vm_compute in H; try discriminate H; reflexivity. Qed.

Lemma numchar_start c : is_json_numchar c = true -> is_json_ws c = false /\ beq c "]"%byte = false.
Proof. intros H. destruct c; vm_compute in H; try discriminate H; split; reflexivity. Qed.

Lemma json_elements_S f t :
  json_elements (S f) t =
  match json_value f t with
  | Some (v, r) =>
    match json_skip r with
    | c :: r1 => if beq c ","%byte then match json_elements f r1 with Some (l, rest) => Some (v :: l, rest) | None => None end
                 else if beq c "]"%byte then Some ([v], r1) else None
    | [] => None
    end
  | None => None
  end.
Proof. reflexivity. Qed.

Lemma elements_step f t v r :
  json_value f t = Some (v, ","%byte :: r) ->
  json_elements (S f) t = match json_elements f r with Some (l, rest) => Some (v :: l, rest) | None => None end.
Proof. intros H. rewrite json_elements_S, H. reflexivity. Qed.
Lemma elements_last f t v r :
  json_value f t = Some (v, "]"%byte :: r) -> json_elements (S f) t = Some ([v], r).
Proof. intros H. rewrite json_elements_S, H. reflexivity. Qed.

Lemma json_members_key f k t :
  json_members (S f) (""""%byte :: flat_map json_escape_char k ++ """"%byte :: ":"%byte :: t) =
  match json_value f t with
  | Some (v, r3) =>
    match json_skip r3 with
    | c3 :: r4 => if beq c3 ","%byte then match json_members f r4 with Some (m, rest) => Some ((k, v) :: m, rest) | None => None end
                  else if beq c3 "}"%byte then Some ([(k, v)], r4) else None
    | [] => None
    end
  | None => None
  end.
Proof.
  assert (E : forall r, json_members (S f) (""""%byte :: r) =
    match json_string r with
    | Some (k, r1) =>
      match json_skip r1 with
      | c1 :: r2 =>
        if beq c1 ":"%byte then
          match json_value f r2 with
          | Some (v, r3) =>
            match json_skip r3 with
            | c3 :: r4 => if beq c3 ","%byte then match json_members f r4 with Some (m, rest) => Some ((k, v) :: m, rest) | None => None end
                          else if beq c3 "}"%byte then Some ([(k, v)], r4) else None
            | [] => None
            end
          | None => None
          end
        else None
      | [] => None
      end
    | None => None
    end) by reflexivity.
  rewrite E, json_string_roundtrip. reflexivity.
Qed.

Lemma members_step f k t v r :
  json_value f t = Some (v, ","%byte :: r) ->
  json_members (S f) (""""%byte :: flat_map json_escape_char k ++ """"%byte :: ":"%byte :: t) =
  match json_members f r with Some (m, rest) => Some ((k, v) :: m, rest) | None => None end.
Proof. intros H. rewrite json_members_key, H. reflexivity. Qed.
Lemma members_last f k t v r :
  json_value f t = Some (v, "}"%byte :: r) ->
  json_members (S f) (""""%byte :: flat_map json_escape_char k ++ """"%byte :: ":"%byte :: t) = Some ([(k, v)], r).
Proof. intros H. rewrite json_members_key, H. reflexivity. Qed.

Lemma json_member_app k wv tail :
  json_member (k, wv) ++ tail =
  """"%byte :: flat_map json_escape_char k ++ """"%byte :: ":"%byte :: wv ++ tail.
Proof.
  unfold json_member, writeJSONString. cbn [fst snd app].
  rewrite <- !app_assoc. reflexivity.
Qed.
Lemma json_member_len (p : bytes * bytes) : (length (snd p) <= length (json_member p))%nat.
Proof.
  unfold json_member, writeJSONString.
  rewrite app_length. cbn [length]. lia.
Qed.
Ltac member_len H :=
  match type of H with
  | context [length (json_member ?p)] =>
    let Hl := fresh "Hlen" in pose proof (json_member_len p) as Hl; cbn [snd] in Hl
  end.

(* ---------- "this text reads as this value", with the text length as fuel ---------- *)
Definition reads_len (t : bytes) (x : json) : Prop :=
  forall fuel rest, (length t <= fuel)%nat -> json_bnd rest ->
    json_value fuel (t ++ rest) = Some (x, rest).

Lemma reads_str s : reads_len (writeJSONString s) (JStr s).
Proof.
  intros fuel rest Hfuel _. unfold writeJSONString in *.
  destruct fuel as [|f]; [cbn [length] in Hfuel; lia|].
  cbn [app]. rewrite <- app_assoc. cbn [app].
  rewrite json_value_string, json_string_roundtrip. reflexivity.
Qed.

Section Lists.
  Context {A : Type} (w : A -> bytes) (j : A -> json).

  Lemma elements_reads (l : list A) :
    Forall (fun a => reads_len (w a) (j a)) l -> l <> [] ->
    forall fuel rest, (S (length (join (B ",") (map w l))) <= fuel)%nat ->
      json_elements fuel (join (B ",") (map w l) ++ "]"%byte :: rest) = Some (map j l, rest).
  Proof.
    change (B ",") with [","%byte].
    induction l as [|a l IH]; intros HF Hne fuel rest Hfuel; [congruence|].
    inversion HF as [|? ? Ha HF']; subst.
    destruct fuel as [|f]; [lia|].
    destruct l as [|b l'].
    - cbn [map join] in *.
      apply elements_last. apply Ha; [lia|]. cbn [json_bnd]. auto.
    - remember (b :: l') as l2 eqn:El2.
      assert (Hl2 : l2 <> []) by (subst l2; discriminate).
      assert (Hm2 : map w l2 <> []) by (subst l2; discriminate).
      cbn [map] in *. rewrite join_cons in * by exact Hm2.
      rewrite !app_length in Hfuel. cbn [length] in Hfuel.
      rewrite <- !app_assoc. cbn [app].
      erewrite elements_step.
      2:{ apply Ha; [lia|]. cbn [json_bnd]. auto. }
      rewrite (IH HF' Hl2) by lia. reflexivity.
  Qed.

  Lemma members_reads (l : list (bytes * A)) :
    Forall (fun kv => reads_len (w (snd kv)) (j (snd kv))) l -> l <> [] ->
    forall fuel rest,
      (S (length (join (B ",") (map json_member (map (fun kv => (fst kv, w (snd kv))) l)))) <= fuel)%nat ->
      json_members fuel (join (B ",") (map json_member (map (fun kv => (fst kv, w (snd kv))) l)) ++ "}"%byte :: rest)
      = Some (map (fun kv => (fst kv, j (snd kv))) l, rest).
  Proof.
    change (B ",") with [","%byte].
    induction l as [|a l IH]; intros HF Hne fuel rest Hfuel; [congruence|].
    inversion HF as [|? ? Ha HF']; subst.
    destruct fuel as [|f]; [lia|].
    destruct l as [|b l'].
    - cbn [map join] in *. member_len Hfuel.
      rewrite json_member_app.
      apply members_last. apply Ha; [lia|]. cbn [json_bnd]. auto.
    - remember (b :: l') as l2 eqn:El2.
      assert (Hl2 : l2 <> []) by (subst l2; discriminate).
      assert (Hm2 : map json_member (map (fun kv => (fst kv, w (snd kv))) l2) <> [])
        by (subst l2; discriminate).
      cbn [map] in *. rewrite join_cons in * by exact Hm2.
      rewrite !app_length in Hfuel. cbn [length] in Hfuel. member_len Hfuel.
      rewrite <- !app_assoc. cbn [app].
      rewrite json_member_app.
      erewrite members_step.
      2:{ apply Ha; [lia|]. cbn [json_bnd]. auto. }
      rewrite (IH HF' Hl2) by lia. reflexivity.
  Qed.
End Lists.

(* ---------- map_entries only looks at the keys ---------- *)
Section MapEntriesFacts.
  Context {A C : Type} (f : A -> C).

  Lemma existsb_key_map k (acc : list (bytes * A)) :
    existsb (fun x => bytes_eqb (fst x) k) (map (fun kv => (fst kv, f (snd kv))) acc)
    = existsb (fun x => bytes_eqb (fst x) k) acc.
  Proof.
    induction acc as [|a acc IH]; [reflexivity|].
    cbn [map existsb fst]. rewrite IH. reflexivity.
  Qed.

  Lemma dedup_last_map (l : list (bytes * A)) :
    dedup_last (map (fun kv => (fst kv, f (snd kv))) l)
    = map (fun kv => (fst kv, f (snd kv))) (dedup_last l).
  Proof.
    unfold dedup_last.
    induction l as [|a l IH]; [reflexivity|].
    cbn [map fold_right]. rewrite IH. cbn [fst]. rewrite existsb_key_map.
    destruct (existsb _ _); reflexivity.
  Qed.

  Lemma insert_kv_map (kv : bytes * A) (l : list (bytes * A)) :
    insert_kv (fst kv, f (snd kv)) (map (fun kv => (fst kv, f (snd kv))) l)
    = map (fun kv => (fst kv, f (snd kv))) (insert_kv kv l).
  Proof.
    induction l as [|a l IH]; [reflexivity|].
    cbn [map insert_kv fst].
    destruct (bytes_ltb (fst a) (fst kv)); cbn [map]; [rewrite IH|]; reflexivity.
  Qed.

  Lemma sort_kv_map (l : list (bytes * A)) :
    sort_kv (map (fun kv => (fst kv, f (snd kv))) l)
    = map (fun kv => (fst kv, f (snd kv))) (sort_kv l).
  Proof.
    unfold sort_kv.
    induction l as [|a l IH]; [reflexivity|].
    cbn [map fold_right]. rewrite IH. apply insert_kv_map.
  Qed.

  Lemma map_entries_map (l : list (bytes * A)) :
    map_entries (map (fun kv => (fst kv, f (snd kv))) l)
    = map (fun kv => (fst kv, f (snd kv))) (map_entries l).
  Proof. unfold map_entries. rewrite dedup_last_map, sort_kv_map. reflexivity. Qed.

End MapEntriesFacts.

Section MapEntriesIn.
  Context {A : Type}.

  Lemma insert_kv_in (x kv : bytes * A) l : In x (insert_kv kv l) -> x = kv \/ In x l.
  Proof.
    induction l as [|a l IH]; cbn [insert_kv In].
    - intros [H|[]]; auto.
    - destruct (bytes_ltb (fst a) (fst kv)); cbn [In].
      + intros [H|H]; auto. destruct (IH H); auto.
      + intros [H|[H|H]]; auto.
  Qed.
  Lemma sort_kv_in (x : bytes * A) l : In x (sort_kv l) -> In x l.
  Proof.
    unfold sort_kv. induction l as [|a l IH]; cbn [fold_right In]; [tauto|].
    intros H. apply insert_kv_in in H. destruct H; auto.
  Qed.
  Lemma dedup_last_in (x : bytes * A) l : In x (dedup_last l) -> In x l.
  Proof.
    unfold dedup_last. induction l as [|a l IH]; cbn [fold_right In]; [tauto|].
    destruct (existsb _ _); cbn [In]; intros H; [auto|]. destruct H; auto.
  Qed.
  Lemma map_entries_in (x : bytes * A) l : In x (map_entries l) -> In x l.
  Proof. unfold map_entries. intros H. apply dedup_last_in, sort_kv_in, H. Qed.
End MapEntriesIn.

(* ---------- induction on nested values ---------- *)
Section GvalInd.
  Variable P : gval -> Prop.
  Hypothesis Hleaf : forall v, match v with VList _ | VMap _ => False | _ => True end -> P v.
  Hypothesis HList : forall l, Forall P l -> P (VList l).
  Hypothesis HMap : forall m, Forall (fun kv => P (snd kv)) m -> P (VMap m).
  Fixpoint gval_ind' (v : gval) : P v :=
    match v with
    | VList l =>
      HList l ((fix go (l : list gval) : Forall P l :=
                  match l with
                  | [] => Forall_nil _
                  | x :: r => Forall_cons x (gval_ind' x) (go r)
                  end) l)
    | VMap m =>
      HMap m ((fix go (m : list (bytes * gval)) : Forall (fun kv => P (snd kv)) m :=
                 match m with
                 | [] => Forall_nil _
                 | (k, x) :: r => Forall_cons (P := fun kv => P (snd kv)) (k, x) (gval_ind' x) (go r)
                 end) m)
    | VNil => Hleaf VNil I
    | VBool b => Hleaf (VBool b) I
    | VI16 z => Hleaf (VI16 z) I
    | VI32 z => Hleaf (VI32 z) I
    | VI64 z => Hleaf (VI64 z) I
    | VInt z => Hleaf (VInt z) I
    | VU16 z => Hleaf (VU16 z) I
    | VU32 z => Hleaf (VU32 z) I
    | VU64 z => Hleaf (VU64 z) I
    | VF32 b => Hleaf (VF32 b) I
    | VF64 b => Hleaf (VF64 b) I
    | VStr s => Hleaf (VStr s) I
    | VBytes s => Hleaf (VBytes s) I
    | VListNil => Hleaf VListNil I
    end.
End GvalInd.

(* ====================================================================== 3. the property *)
Section Json.
  Variable show_f64 show_f32 : Z -> bytes.
  Hypothesis Hf64 : forall b, f64_class b = FFinite -> json_num_ok (show_f64 b) = true.
  Hypothesis Hf32 : forall b, f32_class b = FFinite -> json_num_ok (show_f32 b) = true.
  (* proved in ProofsNum.v *)
  Hypothesis Hdec : forall z, json_num_ok (dec z) = true.
  Hypothesis Hchars : forall t, json_num_ok t = true -> forallb is_json_numchar t = true.

  Local Notation W := (writeJSONValue show_f64 show_f32).
  Local Notation J := (to_json show_f64 show_f32).

  Lemma num_start t : json_num_ok t = true -> exists c r, t = c :: r /\ is_json_numchar c = true.
  Proof.
    intros Hok. pose proof (Hchars t Hok) as Hc.
    destruct t as [|c r]; [vm_compute in Hok; discriminate Hok|].
    cbn [forallb] in Hc. apply andb_true_iff in Hc. destruct Hc as [Hc _].
    exists c, r. auto.
  Qed.

  Lemma reads_num t : json_num_ok t = true -> reads_len t (JNum t).
  Proof.
    intros Hok fuel rest Hfuel Hb.
    destruct (num_start t Hok) as (c & r & E & Hc).
    destruct fuel as [|f]; [subst t; cbn [length] in Hfuel; lia|].
    assert (Hsp : span is_json_numchar (t ++ rest) = (t, rest)).
    { apply span_app; [apply Hchars, Hok | apply json_bnd_not_numchar, Hb]. }
    subst t. cbn [app] in *. rewrite json_value_num by exact Hc.
    rewrite Hsp. cbv beta iota. rewrite Hok. reflexivity.
  Qed.

  Lemma reads_const (t : bytes) (x : json) :
    (forall f rest, json_value (S f) (t ++ rest) = Some (x, rest)) -> (0 < length t)%nat -> reads_len t x.
  Proof.
    intros H Hpos fuel rest Hfuel _. destruct fuel as [|f]; [lia|]. apply H.
  Qed.

  Lemma reads_float c t : (c = FFinite -> json_num_ok t = true) -> reads_len (writeJSONFloat c t) (float_json c t).
  Proof.
    intros H. destruct c; cbn [writeJSONFloat float_json].
    - apply reads_num, H. reflexivity.
    - apply reads_const; [reflexivity | vm_compute; lia].
    - apply reads_const; [reflexivity | vm_compute; lia].
    - apply reads_const; [reflexivity | vm_compute; lia].
  Qed.

  (* the first character of a rendered value is neither white space nor ']' *)
  Lemma W_start v : exists c t, W v = c :: t /\ is_json_ws c = false /\ beq c "]"%byte = false.
  Proof.
    assert (Hnum : forall t, json_num_ok t = true ->
              exists c r, t = c :: r /\ is_json_ws c = false /\ beq c "]"%byte = false).
    { intros t Hok. destruct (num_start t Hok) as (c & r & E & Hc).
      exists c, r. split; [exact E|]. apply numchar_start, Hc. }
    assert (Hfl : forall c t, (c = FFinite -> json_num_ok t = true) ->
              exists c0 r, writeJSONFloat c t = c0 :: r /\ is_json_ws c0 = false /\ beq c0 "]"%byte = false).
    { intros c t H. destruct c; cbn [writeJSONFloat].
      - apply Hnum, H. reflexivity.
      - eexists _, _. split; [reflexivity|split; reflexivity].
      - eexists _, _. split; [reflexivity|split; reflexivity].
      - eexists _, _. split; [reflexivity|split; reflexivity]. }
    destruct v as [ |b|z|z|z|z|z|z|z|b|b|s|s|l| |m]; cbn [writeJSONValue].
    - eexists _, _. split; [reflexivity|split; reflexivity].
    - destruct b; eexists _, _; (split; [reflexivity|split; reflexivity]).
    - apply Hnum, Hdec.
    - apply Hnum, Hdec.
    - apply Hnum, Hdec.
    - apply Hnum, Hdec.
    - eexists _, _. split; [reflexivity|split; reflexivity].
    - apply Hnum, Hdec.
    - eexists _, _. split; [reflexivity|split; reflexivity].
    - apply Hfl, Hf32.
    - apply Hfl, Hf64.
    - eexists _, _. split; [reflexivity|split; reflexivity].
    - eexists _, _. split; [reflexivity|split; reflexivity].
    - eexists _, _. split; [reflexivity|split; reflexivity].
    - eexists _, _. split; [reflexivity|split; reflexivity].
    - eexists _, _. split; [reflexivity|split; reflexivity].
  Qed.

  Lemma W_list l : W (VList l) = "["%byte :: join (B ",") (map W l) ++ ["]"%byte].
  Proof. reflexivity. Qed.
  Lemma J_list l : J (VList l) = JArr (map J l).
  Proof. reflexivity. Qed.
  Lemma W_map m : W (VMap m) = mapToJSON_body (map (fun kv => (fst kv, W (snd kv))) m).
  Proof. reflexivity. Qed.
  Lemma J_map m : J (VMap m) = JObj (map_entries (map (fun kv => (fst kv, J (snd kv))) m)).
  Proof. reflexivity. Qed.

  (* main lemma: the text length is enough fuel *)
  Theorem writeJSONValue_reads_len : forall v, reads_len (W v) (J v).
  Proof.
    apply gval_ind'.
    - (* leaves *)
      intros v Hv.
      destruct v as [ |b|z|z|z|z|z|z|z|b|b|s|s|l| |m]; try contradiction; cbn [writeJSONValue to_json].
      + apply reads_const; [reflexivity | vm_compute; lia].
      + destruct b; (apply reads_const; [reflexivity | vm_compute; lia]).
      + apply reads_num, Hdec.
      + apply reads_num, Hdec.
      + apply reads_num, Hdec.
      + apply reads_num, Hdec.
      + apply reads_str.
      + apply reads_num, Hdec.
      + apply reads_str.
      + apply reads_float, Hf32.
      + apply reads_float, Hf64.
      + apply reads_str.
      + apply reads_str.
      + apply reads_const; [reflexivity | vm_compute; lia].
    - (* lists *)
      intros l HF fuel rest Hfuel Hb. rewrite W_list in *. rewrite J_list.
      destruct l as [|x l'].
      + destruct fuel as [|f]; [cbn in Hfuel; lia|]. reflexivity.
      + remember (x :: l') as l eqn:El.
        assert (Hne : l <> []) by (subst l; discriminate).
        cbn [length] in Hfuel. rewrite app_length in Hfuel. cbn [length] in Hfuel.
        destruct fuel as [|f]; [lia|].
        assert (E : json_elements f (join (B ",") (map W l) ++ "]"%byte :: rest) = Some (map J l, rest))
          by (apply (elements_reads W J l HF Hne); lia).
        destruct (W_start x) as (c & t & Ex & Hws & Hc).
        destruct (join_head (B ",") (W x) (map W l')) as [u Eu].
        assert (Ej : join (B ",") (map W l) = c :: t ++ u).
        { subst l. cbn [map]. rewrite Eu, Ex. reflexivity. }
        cbn [app]. rewrite <- app_assoc. cbn [app].
        rewrite Ej in *. cbn [app] in *.
        rewrite json_value_arr, json_skip_nws by exact Hws.
        rewrite Hc, E. reflexivity.
    - (* maps *)
      intros m HF fuel rest Hfuel Hb. rewrite W_map in *. rewrite J_map.
      unfold mapToJSON_body in *. rewrite !map_entries_map in *.
      assert (HF' : Forall (fun kv => reads_len (W (snd kv)) (J (snd kv))) (map_entries m)).
      { apply Forall_forall. intros kv Hin. apply map_entries_in in Hin.
        rewrite Forall_forall in HF. apply HF, Hin. }
      destruct (map_entries m) as [|kv E'] eqn:EE.
      + destruct fuel as [|f]; [cbn in Hfuel; lia|]. reflexivity.
      + rewrite <- EE in *.
        assert (Hne : map_entries m <> []) by (rewrite EE; discriminate).
        cbn [length] in Hfuel. rewrite app_length in Hfuel. cbn [length] in Hfuel.
        destruct fuel as [|f]; [lia|].
        assert (E : json_members f
                      (join (B ",") (map json_member (map (fun kv => (fst kv, W (snd kv))) (map_entries m)))
                       ++ "}"%byte :: rest)
                    = Some (map (fun kv => (fst kv, J (snd kv))) (map_entries m), rest))
          by (apply (members_reads W J (map_entries m) HF' Hne); lia).
        assert (Ej : exists u, join (B ",") (map json_member (map (fun kv => (fst kv, W (snd kv))) (map_entries m)))
                               = """"%byte :: u).
        { rewrite EE. cbn [map].
          destruct (join_head (B ",") (json_member (fst kv, W (snd kv)))
                      (map json_member (map (fun kv => (fst kv, W (snd kv))) E'))) as [u Eu].
          rewrite Eu, json_member_app. eexists. reflexivity. }
        destruct Ej as [u Ej].
        cbn [app]. rewrite <- app_assoc. cbn [app].
        rewrite Ej in *. cbn [app] in *.
        rewrite json_value_obj_q, E. reflexivity.
  Qed.

  (* statement 2: some amount of fuel is enough, and more does not hurt *)
  Theorem writeJSONValue_reads_fuel : forall v, exists n, forall fuel rest, (n <= fuel)%nat -> json_bnd rest ->
    json_value fuel (writeJSONValue show_f64 show_f32 v ++ rest) = Some (to_json show_f64 show_f32 v, rest).
  Proof.
    intros v. exists (length (W v)). intros fuel rest Hfuel Hb.
    apply writeJSONValue_reads_len; assumption.
  Qed.

  Lemma read_fuel_len v fuel : (length (W v) <= fuel)%nat -> json_read_fuel fuel (W v) = Some (J v).
  Proof.
    intros Hfuel. unfold json_read_fuel.
    pose proof (writeJSONValue_reads_len v fuel [] Hfuel I) as E.
    rewrite app_nil_r in E. rewrite E. reflexivity.
  Qed.

  (* statement 3: complete documents *)
  Theorem writeJSONValue_reads : forall v, exists n, forall fuel, (n <= fuel)%nat ->
    json_read_fuel fuel (writeJSONValue show_f64 show_f32 v) = Some (to_json show_f64 show_f32 v).
  Proof. intros v. exists (length (W v)). apply read_fuel_len. Qed.

  Theorem mapToJSON_reads : forall m, exists n, forall fuel, (n <= fuel)%nat ->
    json_read_fuel fuel (mapToJSON show_f64 show_f32 m) = Some (map_json show_f64 show_f32 m).
  Proof. intros m. exact (writeJSONValue_reads (VMap m)). Qed.

  (* statement 4: the reader's built-in fuel (text length + 1) is enough *)
  Theorem writeJSONValue_reads_full : forall v,
    json_read (writeJSONValue show_f64 show_f32 v) = Some (to_json show_f64 show_f32 v).
  Proof. intros v. unfold json_read. apply read_fuel_len. lia. Qed.

  Theorem mapToJSON_reads_full : forall m,
    json_read (mapToJSON show_f64 show_f32 m) = Some (map_json show_f64 show_f32 m).
  Proof. intros m. exact (writeJSONValue_reads_full (VMap m)). Qed.
End Json.

(* ====================================================================== 4. examples *)
(* concrete renderings in place of the float oracles *)
Definition ex_f64 (_ : Z) : bytes := B "1.5e+06".
Definition ex_f32 (_ : Z) : bytes := B "-0.25".
(* a nested value: a key with a quote and a backslash (written twice: the last write wins), an empty
   key, a key that is a line feed, strings with control bytes, DEL and a non-UTF-8 byte, finite and
   infinite floats, empty and nested lists and maps *)
Definition ex_val : gval :=
  VMap [ (B "k""\", VBool false);
         (B "", VStr []);
         ([x0a], VMap [(B "b", VI16 1); (B "a", VI32 2); (B "b", VI64 3)]);
         (B "k""\", VList [VInt (-5); VStr (x01 :: B "a""\/" ++ [x1f; x7f; xff]); VF64 0; VF32 0;
                            VF64 9218868437227405312; VF32 4290772992; VNil; VBool true; VMap [];
                            VListNil; VList []; VList [VList [VU64 7; VBytes [x01; xff]]]]) ].

Example ex_json_read :
  json_read (writeJSONValue ex_f64 ex_f32 ex_val) = Some (to_json ex_f64 ex_f32 ex_val).
Proof. vm_compute. reflexivity. Qed.

Example ex_json_text :
  writeJSONValue ex_f64 ex_f32 (VMap [(B "k""\", VList [VStr [x01; x1f; """"%byte]; VF64 0])])
  = B "{""k\""\\"":[""\u0001\u001f\"""",1.5e+06]}"
  /\ json_read (B "{""k\""\\"":[""\u0001\u001f\"""",1.5e+06]}")
     = Some (JObj [(B "k""\", JArr [JStr [x01; x1f; """"%byte]; JNum (B "1.5e+06")])]).
Proof. split; vm_compute; reflexivity. Qed.

Example ex_json_string : json_string (flat_map json_escape_char [x00; """"%byte; "\"%byte; x1f; xff] ++ B """rest")
                         = Some ([x00; """"%byte; "\"%byte; x1f; xff], B "rest").
Proof. vm_compute. reflexivity. Qed.
