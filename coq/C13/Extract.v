Require Import PG.Base.GoSlice PG.C13.Lib PG.C13.Model PG.C13.Spec PG.C13.Inst.
Require Extraction. Require ExtrOcamlBasic.
Extraction "model.ml"
  quoteIdent quoteLiteral commentSafe isReservedWord isSafeIdent pgTypeToSQL fieldNeedsQuotes csv_field csv_record writeCSVRecord
  x_writeJSONValue x_mapToJSON x_formatSQLValue x_TableToSQL x_DatabaseToSQL x_DumpToSQL
  x_formatCSVValue x_TableToCSV x_DatabaseToCSV x_DumpToCSV
  lex_all csv_read csv_read_skip csv_blank json_read comment_unescape json_num_ok word_token cesc
  x_to_json x_map_json x_value_tokens x_table_tokens x_database_tokens x_dump_tokens x_csv_records
  x_csv_section_header canon_gval f64_class f32_class dec res.
