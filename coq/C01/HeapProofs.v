(* C01/HeapProofs.v — the generic heap-file lemma: for every schema and every well-formed abstract heap,
   ReadRows on the bytes enc_heap writes returns exactly the expected rows of the LIVE versions, in order.
   Composes C02 (page scan), C09 (visible view = filter) and C03 (row decoding). *)
Require Import PG.Base.Bytes PG.Base.GoSlice PG.Base.Value.
Require Import PG.C02.Model PG.C02.Spec PG.C02.Pure PG.C02.Refine PG.C02.SpecProofs.
Require Import PG.C03.Model PG.C03.Pure PG.C03.Spec PG.C03.Refine PG.C03.SpecProofs PG.C03.Bitmap PG.C03.Main.
Require Import PG.C09.Model PG.C09.Spec PG.C09.Proofs.
Require Import PG.C01.Lib PG.C01.Model PG.C01.Spec.

(* ---------- stored tuples ---------- *)
(* (re-proved here: the copies in C03/Main.v are generalised over that file's Section variables) *)
Lemma bitmap_of_bits_len : forall fuel bits, (length bits <= fuel)%nat ->
  blen (bitmap_of_bits fuel bits) = (Z.of_nat (length bits) + 7) / 8.
Proof.
  induction fuel as [|f IH]; intros bits H.
  - destruct bits; [reflexivity|cbn [length] in H; lia].
  - destruct bits as [|b bits]; [reflexivity|]. rewrite bitmap_cons by discriminate. bl.
    rewrite IH by (rewrite skipn_length; cbn [length] in *; lia).
    rewrite skipn_length. cbn [length]. lia.
Qed.
Lemma bitmap_of_len ds : blen (bitmap_of ds) = (Z.of_nat (length ds) + 7) / 8.
Proof. unfold bitmap_of. rewrite bitmap_of_bits_len by (rewrite map_length; lia). rewrite map_length. reflexivity. Qed.

Lemma stored_tuple_wf head flags2 mask_hi extra cols ds :
  blen head = 18 -> 0 <= flags2 < 32 -> 0 <= mask_hi < 32768 -> 0 <= extra ->
  Z.of_nat (length ds) < 2048 -> maxalign (23 + (Z.of_nat (length ds) + 7) / 8) + 8 * extra <= 255 ->
  wf_tup (stored_tuple head flags2 mask_hi extra cols ds).
Proof.
  intros Hh Hf Hm He Hn Hho.
  unfold wf_tup, stored_tuple, hasnull, bitmap_len, maxalign.
  cbn [tp_head tp_natts tp_flags2 tp_infomask tp_hoff tp_mid tp_data].
  pose proof (bitmap_of_len ds) as BL. unfold maxalign in Hho.
  destruct (has_nulls ds) eqn:EN.
  - rewrite BL in *. unfold align in *. cbn [Z.leb Z.compare Pos.compare Pos.compare_cont] in *. bl.
    repeat split; try lia; try (rewrite zeros_len by lia; lia).
  - change (blen []) with 0 in *. unfold align in *. cbn [Z.leb Z.compare Pos.compare Pos.compare_cont] in *. bl.
    repeat split; try lia; try (rewrite zeros_len by lia; lia).
    intros O. exfalso. rewrite Z.add_0_l, Z.odd_mul in O. discriminate.
Qed.

Lemma stored_tuple_obs head flags2 mask_hi extra cols ds po :
  let t := stored_tuple head flags2 mask_hi extra cols ds in
  o_data (expected_tuple t po) = fill 0 cols ds /\ o_bitmap (expected_tuple t po) = bitmap_for ds.
Proof.
  intros t. split; [reflexivity|].
  cbn [o_bitmap expected_tuple]. unfold bitmap_for, hasnull, bitmap_len, t, stored_tuple. cbn [tp_infomask tp_natts tp_mid].
  destruct (has_nulls ds) eqn:EN.
  - replace (Z.odd (1 + 2 * mask_hi)) with true by (rewrite Z.odd_add, Z.odd_mul; reflexivity).
    f_equal. rewrite <- bitmap_of_len. rewrite firstn_app.
    replace (Z.to_nat (blen (bitmap_of ds)) - length (bitmap_of ds))%nat with 0%nat by (unfold blen; lia).
    cbn [firstn]. rewrite app_nil_r. apply firstn_all2. unfold blen. lia.
  - replace (Z.odd (0 + 2 * mask_hi)) with false by (rewrite Z.add_0_l, Z.odd_mul; reflexivity). reflexivity.
Qed.

(* hint bits 8, 10, 11 do not depend on bit 0 (HEAP_HASNULL) *)
Lemma live_bit0 b m : (b = 0 \/ b = 1) -> live (b + 2 * m) = live (2 * m).
Proof.
  intros Hb. unfold live.
  assert (T : forall k, 0 < k -> Z.testbit (b + 2 * m) k = Z.testbit (2 * m) k).
  { intros k Hk. replace k with (Z.succ (k - 1)) by lia.
    destruct Hb as [-> | ->].
    - rewrite Z.add_0_l. reflexivity.
    - replace (1 + 2 * m) with (2 * m + 1) by lia. rewrite Z.testbit_odd_succ, Z.testbit_even_succ by lia. reflexivity. }
  rewrite !T by lia. reflexivity.
Qed.

Lemma obs_visible_expected t po : obs_visible (expected_tuple t po) = live (tp_infomask t).
Proof. reflexivity. Qed.

(* ---------- page layout ---------- *)
Section Lay.
Context {A : Type}.
Variable cols : list Column.
Variable to_ds : A -> list datum.
Variable payload_ok : A -> Prop.
Notation item_tup := (item_tup cols to_ds).
Notation lay_up := (lay_up cols to_ds).
Notation lay_lps := (lay_lps cols to_ds).
Notation lay_img := (lay_img cols to_ds).
Notation wf_version := (wf_version cols to_ds payload_ok).

Definition item_ok (v : version A) : Prop :=
  match item_tup v with
  | Some t => wf_tup t
  | None => let l := item_stub v in 0 <= lp_off l < 32768 /\ 0 <= lp_len l < 32768 /\ 0 <= lp_flags l < 4 /\ lp_flags l <> 1
  end.

Lemma wf_version_ok v : wf_version v -> item_ok v.
Proof.
  destruct v as [h a|t|l]; unfold item_ok; cbn [Spec.item_tup Spec.wf_version item_stub].
  - intros ((H1 & H2 & H3 & H4 & H5 & H6) & _). unfold row_tup. apply stored_tuple_wf; assumption.
  - intros [H _]. exact H.
  - intros (H1 & H2 & H3). repeat split; try lia.
Qed.

Lemma down_le pos t : 0 <= tup_len t -> down pos t <= pos - tup_len t.
Proof. intros. unfold down. lia. Qed.
Lemma wf_tup_len t : wf_tup t -> 23 <= tup_len t.
Proof. intros (_ & _ & _ & _ & Hh & _). unfold tup_len. pose proof (blen_nonneg (tp_data t)). lia. Qed.

Lemma lay_up_le : forall items pos, Forall item_ok items -> lay_up items pos <= pos.
Proof.
  induction items as [|it r IH]; intros pos F; cbn [Spec.lay_up]; [lia|].
  inversion F as [|? ? Hit Fr]; subst. unfold item_ok in Hit.
  destruct (item_tup it) as [t|]; [|apply IH; exact Fr].
  specialize (IH (down pos t) Fr). pose proof (wf_tup_len t Hit). pose proof (down_le pos t). lia.
Qed.

Lemma lay_img_len : forall items pos, Forall item_ok items -> blen (lay_img items pos) = pos - lay_up items pos.
Proof.
  induction items as [|it r IH]; intros pos F; cbn [Spec.lay_img Spec.lay_up]; [bl; lia|].
  inversion F as [|? ? Hit Fr]; subst. unfold item_ok in Hit.
  destruct (item_tup it) as [t|]; [|apply IH; exact Fr].
  pose proof (wf_tup_len t Hit). pose proof (down_le pos t).
  bl. rewrite IH by exact Fr. rewrite enc_tuple_len by exact Hit. rewrite ?zeros_len by lia. lia.
Qed.

Lemma lay_lps_length : forall items pos, length (lay_lps items pos) = length items.
Proof.
  induction items as [|it r IH]; intros pos; cbn [Spec.lay_lps]; [reflexivity|].
  destruct (item_tup it); cbn [length]; rewrite IH; reflexivity.
Qed.

Lemma lay_lps_wf : forall items pos pre suf U,
  Forall item_ok items -> blen pre = lay_up items pos -> 0 <= U -> U <= lay_up items pos -> pos <= 8192 ->
  Forall (wf_lp (pre ++ lay_img items pos ++ suf) U 8192) (lay_lps items pos).
Proof.
  induction items as [|it r IH]; intros pos pre suf U F Hpre HU0 HU Hpos; cbn [Spec.lay_lps]; [constructor|].
  inversion F as [|? ? Hit Fr]; subst. unfold item_ok in Hit.
  cbn [Spec.lay_img Spec.lay_up] in *.
  destruct (item_tup it) as [t|] eqn:Eit.
  - pose proof (wf_tup_len t Hit) as L23. pose proof (down_le pos t) as Hd.
    pose proof (lay_up_le r (down pos t) Fr) as Hup.
    pose proof (lay_img_len r (down pos t) Fr) as Hil.
    constructor.
    + unfold wf_lp. cbn [fst snd lp_off lp_flags lp_len]. repeat split; try lia.
      intros _. exists t. split; [reflexivity|]. split; [exact Hit|]. repeat split; try lia.
      rewrite <- !app_assoc.
      rewrite sub_app_r by lia. rewrite sub_app_r by lia.
      rewrite sub_app_l by (rewrite ?enc_tuple_len by exact Hit; lia).
      apply sub_exact; [lia|]. rewrite enc_tuple_len by exact Hit. lia.
    + replace (pre ++ (lay_img r (down pos t) ++ enc_tuple t ++ zeros (pos - down pos t - tup_len t)) ++ suf)
        with (pre ++ lay_img r (down pos t) ++ (enc_tuple t ++ zeros (pos - down pos t - tup_len t) ++ suf))
        by (rewrite <- !app_assoc; reflexivity).
      apply IH; try assumption; lia.
  - destruct Hit as (H1 & H2 & H3 & H4).
    constructor; [|apply IH; assumption].
    unfold wf_lp. cbn [fst snd]. repeat split; try lia.
    intros Hn. unfold LP_NORMAL in Hn. contradiction.
Qed.

Definition tuples_of (items : list (version A)) : list tup :=
  flat_map (fun v => match item_tup v with Some t => [t] | None => [] end) items.

Lemma lay_lps_normal : forall items pos, Forall item_ok items ->
  flat_map (fun x : lp * option tup => if lp_flags (fst x) =? LP_NORMAL then match snd x with Some t => [t] | None => [] end else [])
           (lay_lps items pos) = tuples_of items.
Proof.
  induction items as [|it r IH]; intros pos F; cbn [Spec.lay_lps]; [reflexivity|].
  inversion F as [|? ? Hit Fr]; subst. unfold item_ok in Hit. unfold tuples_of. cbn [flat_map].
  destruct (item_tup it) as [t|] eqn:Eit.
  - cbn [flat_map fst snd lp_flags]. change (1 =? LP_NORMAL) with true. cbn [app]. f_equal. apply IH. exact Fr.
  - cbn [flat_map fst snd]. destruct Hit as (_ & _ & _ & Hn).
    replace (lp_flags (item_stub it) =? LP_NORMAL) with false by (unfold LP_NORMAL; lia).
    cbn [app]. apply IH. exact Fr.
Qed.

Lemma to_page_wf (p : hpage A) : wf_hpage cols to_ds payload_ok p -> wf_page (to_page cols to_ds p).
Proof.
  intros (Hl & Hp & Fv & Hfit).
  assert (F : Forall item_ok (hp_items p)) by (eapply Forall_impl; [|exact Fv]; apply wf_version_ok).
  pose proof (lay_up_le _ 8192 F) as Hup. pose proof (lay_img_len _ 8192 F) as Hil.
  unfold page_fits in Hfit. apply Z.leb_le in Hfit.
  assert (Hlow : pg_lower (to_page cols to_ds p) = page_lower p).
  { unfold pg_lower, to_page, page_lower. cbn [pg_lps]. rewrite lay_lps_length. reflexivity. }
  unfold wf_page. rewrite Hlow.
  change (pg_lsn_etc (to_page cols to_ds p)) with (hp_lsn p).
  change (pg_prune (to_page cols to_ds p)) with (hp_prune p).
  change (pg_version (to_page cols to_ds p)) with 4.
  change (pg_upper (to_page cols to_ds p)) with (lay_up (hp_items p) 8192).
  change (pg_special (to_page cols to_ds p)) with 8192.
  change (pg_body (to_page cols to_ds p)) with (zeros (lay_up (hp_items p) 8192 - page_lower p) ++ lay_img (hp_items p) 8192).
  change (pg_lps (to_page cols to_ds p)) with (lay_lps (hp_items p) 8192).
  unfold page_lower in *.
  repeat split; try lia.
  - bl. rewrite ?zeros_len by lia. lia.
  - unfold enc_page. rewrite Hlow.
    change (pg_lsn_etc (to_page cols to_ds p)) with (hp_lsn p).
    change (pg_prune (to_page cols to_ds p)) with (hp_prune p).
    change (pg_version (to_page cols to_ds p)) with 4.
    change (pg_upper (to_page cols to_ds p)) with (lay_up (hp_items p) 8192).
    change (pg_special (to_page cols to_ds p)) with 8192.
    change (pg_body (to_page cols to_ds p)) with (zeros (lay_up (hp_items p) 8192 - page_lower p) ++ lay_img (hp_items p) 8192).
    change (pg_lps (to_page cols to_ds p)) with (lay_lps (hp_items p) 8192).
    unfold page_lower.
    set (img := lay_img (hp_items p) 8192) in *. set (up := lay_up (hp_items p) 8192) in *.
    match goal with |- Forall (wf_lp ?X _ _) _ =>
      replace X with ((hp_lsn p ++ le_enc 2 (24 + 4 * Z.of_nat (length (hp_items p))) ++ le_enc 2 up ++ le_enc 2 8192 ++
                       le_enc 2 (8192 + 4) ++ hp_prune p ++ enc_lps (lay_lps (hp_items p) 8192) ++
                       zeros (up - (24 + 4 * Z.of_nat (length (hp_items p))))) ++ img ++ [])
        by (rewrite app_nil_r, <- !app_assoc; reflexivity) end.
    apply lay_lps_wf; try assumption; try lia.
    bl. rewrite ?enc_lps_len, ?lay_lps_length, ?zeros_len by lia. subst up. lia.
Qed.

Lemma to_page_tuples (p : hpage A) : wf_hpage cols to_ds payload_ok p ->
  normal_tuples (to_page cols to_ds p) = tuples_of (hp_items p).
Proof.
  intros (_ & _ & Fv & _).
  assert (F : Forall item_ok (hp_items p)) by (eapply Forall_impl; [|exact Fv]; apply wf_version_ok).
  unfold normal_tuples, to_page. cbn [pg_lps]. apply lay_lps_normal. exact F.
Qed.
End Lay.

(* ---------- file ---------- *)
Definition blk_tuples (b : block) : list tup := match b with BPage p => normal_tuples p | BZero => [] end.

Lemma expected_file_tuples : forall bs off,
  Forall2 (fun o t => exists po, o = expected_tuple t po) (expected_file bs off) (flat_map blk_tuples bs).
Proof.
  induction bs as [|b r IH]; intros off; cbn [expected_file flat_map]; [constructor|].
  destruct b as [p|]; cbn [blk_tuples]; [|apply IH].
  apply Forall2_app; [|apply IH].
  unfold expected_page. induction (normal_tuples p) as [|t l IHl]; cbn [map]; constructor; eauto.
Qed.

Section ReadRows.
Variable DecodeType : gslice -> Z -> res gval.
Variable decode : bytes -> Z -> gval.
Hypothesis DT_ok : forall s oid, DecodeType s oid = Ok (decode (vis s) oid).
Context {A : Type}.
Variable cols : list Column.
Variable to_ds : A -> list datum.
Variable payload_ok : A -> Prop.
(* the schema the file is READ with (normally [cols] itself; another one when detectAttrSchema probes a layout) *)
Variable rcols : list Column.
Hypothesis rcols_ne : rcols <> [].
Definition row_read (a : A) : row := p_row decode (bitmap_for (to_ds a)) (fill 0 cols (to_ds a)) rcols.

Definition all_items (h : heap A) : list (version A) :=
  flat_map (fun b => match b with HPage p => hp_items p | HZero => [] end) h.

Lemma live_rows_items (h : heap A) : live_rows h = flat_map item_rows (all_items h).
Proof.
  unfold live_rows, all_items. induction h as [|b r IH]; [reflexivity|]. cbn [flat_map].
  rewrite flat_map_app, IH. destruct b; reflexivity.
Qed.

Lemma heap_tuples (h : heap A) : wf_heap cols to_ds payload_ok h ->
  flat_map blk_tuples (map (to_block cols to_ds) h) = tuples_of cols to_ds (all_items h).
Proof.
  unfold all_items. induction h as [|b r IH]; intros F; [reflexivity|].
  inversion F as [|? ? Hb Fr]; subst. cbn [map flat_map]. unfold tuples_of in *. rewrite flat_map_app, <- IH by exact Fr.
  f_equal. destruct b as [p|]; [|reflexivity]. cbn [to_block blk_tuples]. apply to_page_tuples with (payload_ok := payload_ok). exact Hb.
Qed.

Definition R (e : TupleEntry) (t : tup) : Prop := exists po, obs_entry e = expected_tuple t po.

Lemma decode_items : forall items l,
  Forall (wf_version cols to_ds payload_ok) items ->
  Forall2 R l (tuples_of cols to_ds items) ->
  decode_entries DecodeType (filter (fun e => IsVisible (e_tuple e)) l) rcols =
  Ok (map row_read (flat_map item_rows items)).
Proof.
  induction items as [|it r IH]; intros l F H2.
  - inversion H2; subst. reflexivity.
  - inversion F as [|? ? Hit Fr]; subst. unfold tuples_of in H2. cbn [flat_map] in H2.
    destruct it as [h a|t|lp0]; cbn [item_tup] in H2.
    + cbn [app] in H2. inversion H2 as [|e t' l' T' He Hr]; subst. destruct He as [po He].
      cbn [filter flat_map item_rows].
      assert (V : IsVisible (e_tuple e) = vh_live h).
      { rewrite (IsVisible_obs (e_tuple e) (e_pageoff e)). change (obs_tuple (e_tuple e) (e_pageoff e)) with (obs_entry e).
        rewrite He, obs_visible_expected. unfold row_tup, stored_tuple. cbn [tp_infomask]. unfold vh_live.
        apply live_bit0. destruct (has_nulls (to_ds a)); auto. }
      rewrite V. destruct (vh_live h) eqn:EL.
      * cbn [decode_entries app map].
        destruct Hit as (Hh & Hfit & _).
        pose proof (stored_tuple_obs (vh_head h) (vh_flags2 h) (vh_mask_hi h) (vh_extra h) cols (to_ds a) po) as [Od Ob].
        fold (row_tup cols to_ds h a) in Od, Ob. rewrite <- He in Od, Ob.
        cbn [obs_entry obs_tuple o_data o_bitmap] in Od, Ob.
        rewrite (DecodeTuple_refines DecodeType decode DT_ok). unfold p_decode. rewrite Od, Ob.
        replace (Z.of_nat (length rcols) =? 0) with false by (destruct rcols; [contradiction|cbn [length]; lia]).
        rewrite andb_false_r. cbn [bind]. rewrite (IH l') by assumption. cbn [bind]. reflexivity.
      * cbn [app]. apply IH; assumption.
    + cbn [app] in H2. inversion H2 as [|e t' l' T' He Hr]; subst. destruct He as [po He].
      cbn [filter flat_map item_rows app].
      assert (V : IsVisible (e_tuple e) = false).
      { rewrite (IsVisible_obs (e_tuple e) (e_pageoff e)). change (obs_tuple (e_tuple e) (e_pageoff e)) with (obs_entry e).
        rewrite He, obs_visible_expected. destruct Hit as [_ Hd]. exact Hd. }
      rewrite V. apply IH; assumption.
    + cbn [app] in H2. cbn [flat_map item_rows app]. apply IH; assumption.
Qed.

Lemma map_F2 : forall (l : list TupleEntry) l2 T,
  map obs_entry l = l2 -> Forall2 (fun o t => exists po, o = expected_tuple t po) l2 T -> Forall2 R l T.
Proof.
  induction l as [|e l IH]; intros l2 T Hm H2; cbn [map] in Hm; subst l2.
  - inversion H2; subst. constructor.
  - inversion H2 as [|o t l2' T' Ho Hr]; subst. constructor; [exact Ho|]. eapply IH; eauto.
Qed.

Lemma all_items_wf (h : heap A) : wf_heap cols to_ds payload_ok h -> Forall (wf_version cols to_ds payload_ok) (all_items h).
Proof.
  unfold all_items. induction h as [|b r IH]; intros F; [constructor|]. inversion F as [|? ? Hb Fr]; subst.
  cbn [flat_map]. apply Forall_app. split; [|apply IH; exact Fr].
  destruct b as [p|]; [|constructor]. destruct Hb as (_ & _ & Fv & _). exact Fv.
Qed.

Lemma to_block_wf (h : heap A) : wf_heap cols to_ds payload_ok h -> Forall wf_block (map (to_block cols to_ds) h).
Proof.
  induction h as [|b r IH]; intros F; [constructor|]. inversion F as [|? ? Hb Fr]; subst. cbn [map].
  constructor; [|apply IH; exact Fr]. destruct b as [p|]; cbn [to_block wf_block]; [|exact I].
  apply to_page_wf with (payload_ok := payload_ok). exact Hb.
Qed.

(* the file read back: exactly the live rows, in physical order, whatever capacity follows the bytes *)
Theorem ReadRows_enc_heap_gen (h : heap A) tl :
  wf_heap cols to_ds payload_ok h ->
  ReadRows DecodeType {| vis := enc_heap cols to_ds h; tail := tl |} rcols true = Ok (map row_read (live_rows h)).
Proof.
  intros W. unfold ReadRows. rewrite visible_is_filter.
  destruct (ReadTuples_refines {| vis := enc_heap cols to_ds h; tail := tl |} false) as (l & H1 & H2).
  rewrite H1. cbn [bind vis] in *. unfold enc_heap in H2.
  rewrite p_file_enc in H2 by (try apply to_block_wf; try assumption; bl; lia).
  rewrite live_rows_items. apply decode_items; [apply all_items_wf; exact W|].
  eapply map_F2; [exact H2|]. rewrite <- heap_tuples by exact W. apply expected_file_tuples.
Qed.

Lemma enc_heap_len (h : heap A) : wf_heap cols to_ds payload_ok h -> blen (enc_heap cols to_ds h) = 8192 * Z.of_nat (length h).
Proof.
  intros W. unfold enc_heap, enc_file. rewrite app_nil_r. pose proof (to_block_wf h W) as F.
  rewrite <- (map_length (to_block cols to_ds) h). induction F as [|b r Hb Fr IH]; [reflexivity|].
  cbn [map concat length]. bl. rewrite IH, enc_block_len by exact Hb. lia.
Qed.

Lemma live_rows_ok (h : heap A) : wf_heap cols to_ds payload_ok h ->
  Forall (fun a => fits_prefix cols (to_ds a) /\ payload_ok a) (live_rows h).
Proof.
  intros W. rewrite live_rows_items. pose proof (all_items_wf h W) as F.
  induction F as [|v r Hv Fr IH]; [constructor|]. cbn [flat_map]. apply Forall_app. split; [|exact IH].
  destruct v as [hd a| |]; cbn [item_rows]; try constructor.
  destruct (vh_live hd); constructor; [|constructor]. destruct Hv as (_ & H1 & H2). auto.
Qed.
End ReadRows.

(* read with the schema the rows were formed under: the expected rows *)
Theorem ReadRows_enc_heap DecodeType decode (DT_ok : forall s oid, DecodeType s oid = Ok (decode (vis s) oid))
  {A} cols (to_ds : A -> list datum) payload_ok (h : heap A) tl :
  cols <> [] -> nums_ok cols 0 -> wf_heap cols to_ds payload_ok h ->
  ReadRows DecodeType {| vis := enc_heap cols to_ds h; tail := tl |} cols true =
  Ok (map (fun a => expected_row decode cols (to_ds a)) (live_rows h)).
Proof.
  intros Hne Hn W. rewrite (ReadRows_enc_heap_gen DecodeType decode DT_ok cols to_ds payload_ok cols Hne h tl W).
  f_equal. pose proof (live_rows_ok cols to_ds payload_ok h W) as F.
  induction F as [|a r [Ha _] Fr IH]; [reflexivity|]. cbn [map]. rewrite IH. f_equal.
  unfold row_read. apply p_row_fill; assumption.
Qed.
