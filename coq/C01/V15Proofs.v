(* C01/V15Proofs.v — what detectAttrSchema sees when it probes a PostgreSQL <= 15 pg_attribute file with the 16
   layout: attnum is read from bytes 74..75 of the row, the HIGH half of attstattarget. *)
Require Import PG.Base.Bytes PG.Base.GoSlice PG.Base.Value.
Require Import PG.C02.Model PG.C03.Model PG.C03.Pure PG.C03.Spec PG.C03.Main.
Require Import PG.C01.Lib PG.C01.Model PG.C01.Spec PG.C01.CatalogProofs.

(* a fixed-width, non-null column read from data that is long enough *)
Lemma p_layout_fixed_step d c rest i off o :
  c_len c > 0 -> go_align off (col_align c) = o -> 0 <= o -> o + c_len c <= blen d ->
  p_layout None d (c :: rest) i off =
  (c_name c, RDec o (o + c_len c) (c_typid c)) :: p_layout None d rest (i + 1) (o + c_len c).
Proof.
  intros Hl Ho H0 Hfit. cbn [p_layout p_isnull]. replace (c_len c =? -1) with false by lia. cbn [andb].
  fold (col_align c). rewrite Ho. unfold p_readValue.
  replace (o >=? blen d) with false by lia. replace (c_len c >? 0) with true by lia.
  replace (blen d - o <? c_len c) with false by lia. reflexivity.
Qed.

(* a fixed-width attribute stored at an offset that is already aligned *)
Lemma fill_step off c cs bs ds n :
  blen bs = n -> align off (att_align c) = off ->
  fill off (c :: cs) (DFixed bs :: ds) = bs ++ fill (off + n) cs ds.
Proof.
  intros Hn Ha. cbn [fill]. unfold pad. rewrite Ha, Hn. replace (off - off) with 0 by lia.
  change (zeros 0) with (@nil byte). cbn [app]. do 2 f_equal. lia.
Qed.

Lemma attr_v15_image a : wf_attrow a ->
  fill 0 schemaPGAttrV15 (attr_ds false a) =
  le_enc 4 (ar_relid a) ++ name64 (ar_name a) ++ le_enc 4 (ar_typid a) ++ sub (ar_misc a) 0 4 ++
  le_enc 2 (ar_len a mod 65536) ++ le_enc 2 (ar_num a mod 65536) ++ sub (ar_misc a) 4 8 ++ sub (ar_misc a) 8 10 ++
  sub (ar_misc a) 10 11 ++ [z2b (ar_align a)].
Proof.
  intros (Hr & [Hn _] & Ht & Hl & Hnum & Ha & Hm).
  unfold attr_ds, schemaPGAttrV15, d_u32, d_i16, d_sub. cbn [app].
  rewrite (fill_step 0 _ _ _ _ 4) by (first [reflexivity | bl; lia]).
  rewrite (fill_step (0 + 4) _ _ _ _ 64) by (first [reflexivity | apply name64_len; lia]).
  rewrite (fill_step (0 + 4 + 64) _ _ _ _ 4) by (first [reflexivity | bl; lia]).
  rewrite (fill_step (0 + 4 + 64 + 4) _ _ _ _ 4) by (first [reflexivity | apply sub_length; lia]).
  rewrite (fill_step (0 + 4 + 64 + 4 + 4) _ _ _ _ 2) by (first [reflexivity | bl; lia]).
  rewrite (fill_step (0 + 4 + 64 + 4 + 4 + 2) _ _ _ _ 2) by (first [reflexivity | bl; lia]).
  rewrite (fill_step (0 + 4 + 64 + 4 + 4 + 2 + 2) _ _ _ _ 4) by (first [reflexivity | apply sub_length; lia]).
  rewrite (fill_step (0 + 4 + 64 + 4 + 4 + 2 + 2 + 4) _ _ _ _ 2) by (first [reflexivity | apply sub_length; lia]).
  rewrite (fill_step (0 + 4 + 64 + 4 + 4 + 2 + 2 + 4 + 2) _ _ _ _ 1) by (first [reflexivity | apply sub_length; lia]).
  rewrite (fill_step (0 + 4 + 64 + 4 + 4 + 2 + 2 + 4 + 2 + 1) _ _ _ _ 1) by (first [reflexivity | bl; lia]).
  cbn [fill]. rewrite app_nil_r. reflexivity.
Qed.

Section V15.
Variable decode : bytes -> Z -> gval.
Hypothesis DT_cat : agrees_on_catalog decode.

Lemma v15_read_as_v16 a : wf_attrow a ->
  toInt (row_get (p_row decode (bitmap_for (attr_ds false a)) (fill 0 schemaPGAttrV15 (attr_ds false a)) schemaPGAttrV16) n_attnum) =
  sint16 (le_dec (sub (ar_misc a) 2 4)).
Proof.
  intros W. pose proof W as (Hr & [Hn _] & Ht & Hl & Hnum & Ha & Hm).
  change (bitmap_for (attr_ds false a)) with (@None bytes).
  rewrite attr_v15_image by exact W.
  set (d := le_enc 4 (ar_relid a) ++ _).
  assert (Hd : blen d = 88).
  { subst d. bl. rewrite name64_len by lia. rewrite !sub_length by lia. lia. }
  unfold p_row, schemaPGAttrV16.
  rewrite (p_layout_fixed_step d _ _ _ _ 0) by (first [reflexivity | cbn [c_len mkcol]; lia]).
  rewrite (p_layout_fixed_step d _ _ _ _ 4) by (first [reflexivity | cbn [c_len mkcol]; lia]).
  rewrite (p_layout_fixed_step d _ _ _ _ 68) by (first [reflexivity | cbn [c_len mkcol]; lia]).
  rewrite (p_layout_fixed_step d _ _ _ _ 72) by (first [reflexivity | cbn [c_len mkcol]; lia]).
  rewrite (p_layout_fixed_step d _ _ _ _ 74) by (first [reflexivity | cbn [c_len mkcol]; lia]).
  rewrite (p_layout_fixed_step d _ _ _ _ 76) by (first [reflexivity | cbn [c_len mkcol]; lia]).
  rewrite (p_layout_fixed_step d _ _ _ _ 80) by (first [reflexivity | cbn [c_len mkcol]; lia]).
  rewrite (p_layout_fixed_step d _ _ _ _ 82) by (first [reflexivity | cbn [c_len mkcol]; lia]).
  rewrite (p_layout_fixed_step d _ _ _ _ 83) by (first [reflexivity | cbn [c_len mkcol]; lia]).
  cbn [p_layout map fst snd eval_req c_name c_typid c_len mkcol].
  match goal with |- toInt (row_get ?r n_attnum) = _ =>
    change (toInt (row_get r n_attnum)) with (toInt (Some (decode (sub d 74 (74 + 2)) OidInt2))) end.
  assert (S : sub d 74 (74 + 2) = sub (ar_misc a) 2 4).
  { subst d. clear Hd.
    rewrite sub_app_r by (bl; lia). rewrite sub_app_r by (rewrite ?name64_len by lia; bl; lia).
    rewrite sub_app_r by (rewrite ?name64_len by lia; bl; lia).
    rewrite sub_app_l by (rewrite ?name64_len by lia; bl; rewrite ?sub_length by lia; lia).
    rewrite name64_len by lia. bl. rewrite sub_sub by lia. f_equal; lia. }
  rewrite S. rewrite DT_cat by (first [discriminate | rewrite sub_length by lia; reflexivity]).
  reflexivity.
Qed.
End V15.
