(* C01/CatalogProofs.v — the three catalog parsers on the files enc_cluster writes. *)
Require Import PG.Base.Bytes PG.Base.GoSlice PG.Base.Value.
Require Import PG.C02.Model PG.C02.Spec PG.C03.Model PG.C03.Pure PG.C03.Spec PG.C03.SpecProofs PG.C03.Main.
Require Import PG.C01.Lib PG.C01.Model PG.C01.Spec PG.C01.HeapProofs.
Require Import Coq.Sorting.Permutation Coq.Sorting.Sorted.

(* ---------- generic list / sort facts ---------- *)
Section SortFacts.
Context {A : Type} (key : A -> Z).
Lemma isort_cons a l : isort key (a :: l) = insert_by key a (isort key l).
Proof. reflexivity. Qed.
Lemma insert_by_in a l x : In x (insert_by key a l) <-> a = x \/ In x l.
Proof.
  induction l as [|y r IH]; cbn [insert_by In]; [tauto|].
  destruct (key a <=? key y); cbn [In]; [tauto|]. rewrite IH. tauto.
Qed.
Lemma isort_in l x : In x (isort key l) <-> In x l.
Proof.
  induction l as [|a r IH]; [reflexivity|]. rewrite isort_cons, insert_by_in, IH. cbn [In]. split; intros [H|H]; auto.
Qed.
Definition kle (x y : A) : Prop := key x <= key y.
Lemma insert_lb a l : Forall (kle a) l -> insert_by key a l = a :: l.
Proof. intros F. destruct F as [|y r Hy _]; [reflexivity|]. cbn [insert_by]. unfold kle in Hy. replace (key a <=? key y) with true by lia. reflexivity. Qed.
Lemma insert_sorted a l : StronglySorted kle l -> StronglySorted kle (insert_by key a l).
Proof.
  induction 1 as [|y r Hs IH Hy]; cbn [insert_by]; [repeat constructor|].
  destruct (key a <=? key y) eqn:E.
  - constructor; [constructor; assumption|]. constructor; [unfold kle; lia|].
    eapply Forall_impl; [|exact Hy]. unfold kle. intros; lia.
  - constructor; [exact IH|]. apply Forall_forall. intros x Hx. apply insert_by_in in Hx. destruct Hx as [<-|Hx].
    + unfold kle. lia.
    + rewrite Forall_forall in Hy. auto.
Qed.
Lemma isort_sorted l : StronglySorted kle (isort key l).
Proof. induction l as [|a r IH]; [constructor|]. rewrite isort_cons. apply insert_sorted. exact IH. Qed.
Lemma filter_insert p a l : StronglySorted kle l ->
  filter p (insert_by key a l) = if p a then insert_by key a (filter p l) else filter p l.
Proof.
  induction 1 as [|y r Hs IH Hy]; cbn [insert_by filter].
  - destruct (p a); reflexivity.
  - destruct (key a <=? key y) eqn:E; cbn [filter].
    + destruct (p a); [|reflexivity].
      assert (F : Forall (kle a) (y :: r)).
      { constructor; [unfold kle; lia|]. eapply Forall_impl; [|exact Hy]. unfold kle. intros; lia. }
      change (if p y then y :: filter p r else filter p r) with (filter p (y :: r)).
      symmetry. apply insert_lb.
      clear - F. induction F as [|z t Hz _ IHt]; cbn [filter]; [constructor|]. destruct (p z); [constructor|]; assumption.
    + rewrite IH. destruct (p a), (p y); cbn [insert_by]; rewrite ?E; reflexivity.
Qed.
Lemma filter_isort p l : filter p (isort key l) = isort key (filter p l).
Proof.
  induction l as [|a r IH]; [reflexivity|]. rewrite isort_cons, filter_insert, IH by apply isort_sorted. cbn [filter].
  destruct (p a); reflexivity.
Qed.
End SortFacts.

Lemma insert_map {A B} (f : A -> B) (kb : B -> Z) (ka : A -> Z) (H : forall a, kb (f a) = ka a) a l :
  insert_by kb (f a) (map f l) = map f (insert_by ka a l).
Proof.
  induction l as [|y r IH]; [reflexivity|]. cbn [map insert_by]. rewrite !H.
  destruct (ka a <=? ka y); cbn [map]; [reflexivity|]. rewrite IH. reflexivity.
Qed.
Lemma isort_map {A B} (f : A -> B) (kb : B -> Z) (ka : A -> Z) (H : forall a, kb (f a) = ka a) l :
  isort kb (map f l) = map f (isort ka l).
Proof.
  induction l as [|a r IH]; [reflexivity|]. cbn [map]. rewrite !isort_cons, IH. apply insert_map. exact H.
Qed.

(* on integers themselves insertion commutes, so sorting forgets the order of its input *)
Definition idz (x : Z) : Z := x.
Lemma insert_comm a b l : insert_by idz a (insert_by idz b l) = insert_by idz b (insert_by idz a l).
Proof.
  unfold idz. induction l as [|y r IH]; cbn [insert_by].
  - destruct (a <=? b) eqn:E1, (b <=? a) eqn:E2; try reflexivity; try lia.
    assert (a = b) by lia. subst. reflexivity.
  - destruct (b <=? y) eqn:Eb, (a <=? y) eqn:Ea; cbn [insert_by]; rewrite ?Ea, ?Eb.
    + destruct (a <=? b) eqn:E1, (b <=? a) eqn:E2; try reflexivity; try lia.
      assert (a = b) by lia. subst. reflexivity.
    + replace (a <=? b) with false by lia. reflexivity.
    + replace (b <=? a) with false by lia. reflexivity.
    + rewrite IH. reflexivity.
Qed.
Lemma isort_perm l1 l2 : Permutation l1 l2 -> isort idz l1 = isort idz l2.
Proof.
  induction 1 as [|x l l' _ IH|x y l|l l' l'' _ IH1 _ IH2]; [reflexivity| | |congruence].
  - rewrite !isort_cons, IH. reflexivity.
  - rewrite !isort_cons. apply insert_comm.
Qed.

(* ---------- decoding the catalog columns ---------- *)
Lemma cstr_take_zeros k : cstr_take (zeros k) = [].
Proof. unfold zeros. destruct (Z.to_nat k); reflexivity. Qed.
Lemma cstr_take_padded n k : nul_free n -> cstr_take (n ++ zeros k) = n.
Proof.
  induction 1 as [|b r Hb _ IH]; cbn [app cstr_take]; [apply cstr_take_zeros|].
  replace (b2z b =? 0) with false by lia. rewrite IH. reflexivity.
Qed.
Lemma name64_len n : blen n <= 64 -> blen (name64 n) = 64.
Proof. intros. unfold name64. bl. lia. Qed.

(* a catalog column (no attalign in the tool's schema: the type's own alignment) stores a value of its width *)
Lemma fits_cat n typ len bs : In typ [26; 19; 21; 23; 16; 18; 700] -> len > 0 -> blen bs = len ->
  fits (mkcol n typ len) (DFixed bs).
Proof.
  intros H Hl Hb. unfold fits. cbn [c_len mkcol]. split; [|split; [|split; assumption]].
  - cbn [In] in H. repeat (destruct H as [<-|H]; [vm_compute; auto 10|]). contradiction.
  - right. cbn [c_typid mkcol]. cbn [In] in H. repeat (destruct H as [<-|H]; [vm_compute; auto 60|]). contradiction.
Qed.

Section Catalog.
Variable DecodeType : gslice -> Z -> res gval.
Variable decode : bytes -> Z -> gval.
Hypothesis DT_ok : forall s oid, DecodeType s oid = Ok (decode (vis s) oid).
Hypothesis DT_cat : agrees_on_catalog decode.

Lemma dec_u32 v : 0 <= v < 2 ^ 32 -> decode (le_enc 4 v) 26 = VU32 v.
Proof. intros. rewrite DT_cat by (cbn; bl; lia). change (cat_decode (le_enc 4 v) 26) with (VU32 (le_dec (le_enc 4 v))). rewrite le_dec_enc by (cbn; lia). reflexivity. Qed.
Lemma dec_name n : wf_name n -> decode (name64 n) 19 = VStr n.
Proof.
  intros [Hl Hn]. rewrite DT_cat by (try rewrite name64_len; cbn; lia).
  change (cat_decode (name64 n) 19) with (VStr (cstr_take (name64 n))). unfold name64. rewrite cstr_take_padded by exact Hn. reflexivity.
Qed.
Lemma dec_i16 v : - 32768 <= v < 32768 -> decode (le_enc 2 (v mod 65536)) 21 = VI16 v.
Proof.
  intros. rewrite DT_cat by (cbn; bl; lia). change (cat_decode (le_enc 2 (v mod 65536)) 21) with (VI16 (sint16 (le_dec (le_enc 2 (v mod 65536))))).
  rewrite le_dec_enc by (cbn; lia). f_equal. apply (sint_wrap 16 v); cbn; lia.
Qed.
Lemma dec_char k : decode [z2b k] 18 = VStr [z2b k].
Proof. rewrite DT_cat by (cbn; lia). reflexivity. Qed.

(* --- pg_database --- *)
Lemma db_row_ok d : wf_dbrow d ->
  db_of_row (expected_row decode schemaPGDatabase (db_ds d)) = [{| db_oid := dr_oid d; db_name := dr_name d |}].
Proof.
  intros [Ho Hn]. unfold db_ds, schemaPGDatabase, mkcol, d_u32.
  cbn [expected_row expected_value c_name c_typid]. rewrite dec_u32, dec_name by (try assumption; lia).
  unfold db_of_row.
  change (getOID [(n_oid, VU32 (dr_oid d)); (n_datname, VStr (dr_name d))] n_oid) with (dr_oid d).
  change (getString [(n_oid, VU32 (dr_oid d)); (n_datname, VStr (dr_name d))] n_datname) with (dr_name d).
  destruct Hn as [Hl _]. replace (dr_oid d >? 0) with true by lia. replace (blen (dr_name d) =? 0) with false by lia.
  reflexivity.
Qed.

Lemma schema_db_fits d : wf_dbrow d -> fits_prefix schemaPGDatabase (db_ds d).
Proof.
  intros [Ho [Hl Hn]]. unfold db_ds, schemaPGDatabase, d_u32.
  repeat (constructor; [apply fits_cat; [cbn [In]; auto 10|lia|try rewrite name64_len by lia; bl; lia]|]).
  constructor.
Qed.

Theorem ParsePGDatabase_enc (h : heap dbrow) tl :
  wf_heap schemaPGDatabase db_ds wf_dbrow h ->
  ParsePGDatabase DecodeType {| vis := enc_heap schemaPGDatabase db_ds h; tail := tl |} =
  Ok (map (fun d => {| db_oid := dr_oid d; db_name := dr_name d |}) (live_rows h)).
Proof.
  intros W. unfold ParsePGDatabase.
  rewrite (ReadRows_enc_heap DecodeType decode DT_ok schemaPGDatabase db_ds wf_dbrow h tl) by (try discriminate; cbn; auto; exact W).
  cbn [bind]. f_equal. pose proof (live_rows_ok schemaPGDatabase db_ds wf_dbrow h W) as F.
  induction F as [|d r [_ Hd] _ IH]; [reflexivity|]. cbn [map flat_map]. rewrite IH, db_row_ok by exact Hd. reflexivity.
Qed.

(* --- pg_class --- *)
Definition info_of (k : classrow) : TableInfo :=
  {| ti_oid := cr_oid k; ti_filenode := cr_filenode k; ti_name := cr_name k; ti_kind := [z2b (cr_kind k)] |}.
Definition class_entry (k : classrow) : gomap TableInfo := if cr_filenode k >? 0 then [(cr_filenode k, info_of k)] else [].

Lemma class_row_ok k : wf_classrow k ->
  class_of_row (expected_row decode schemaPGClass (class_ds k)) = class_entry k.
Proof.
  intros (Ho & Hf & Hn & Hk & Hm). unfold class_ds, schemaPGClass, mkcol, d_u32, d_sub.
  cbn [expected_row expected_value c_name c_typid]. rewrite !dec_u32, dec_name, dec_char by (try assumption; lia).
  unfold class_of_row, class_entry, info_of.
  match goal with |- context [getOID ?r n_relfilenode] => change (getOID r n_relfilenode) with (cr_filenode k);
     change (getOID r n_oid) with (cr_oid k); change (getString r n_relname) with (cr_name k);
     change (getString r n_relkind) with [z2b (cr_kind k)] end.
  reflexivity.
Qed.

Theorem ParsePGClass_enc (h : heap classrow) tl :
  wf_heap schemaPGClass class_ds wf_classrow h ->
  ParsePGClass DecodeType {| vis := enc_heap schemaPGClass class_ds h; tail := tl |} =
  Ok (flat_map class_entry (live_rows h)).
Proof.
  intros W. unfold ParsePGClass.
  rewrite (ReadRows_enc_heap DecodeType decode DT_ok schemaPGClass class_ds wf_classrow h tl) by (try discriminate; cbn; auto 20; exact W).
  cbn [bind]. f_equal. pose proof (live_rows_ok schemaPGClass class_ds wf_classrow h W) as F.
  induction F as [|d r [_ Hd] _ IH]; [reflexivity|]. cbn [map flat_map]. rewrite IH, class_row_ok by exact Hd. reflexivity.
Qed.

(* --- pg_attribute --- *)
Definition attr_info (a : attrow) : AttrInfo :=
  {| ai_name := ar_name a; ai_typid := ar_typid a; ai_num := ar_num a; ai_len := ar_len a; ai_align := ar_align a |}.
Definition attr_entry (a : attrow) : option (Z * AttrInfo) :=
  if (ar_relid a =? 0) || (ar_num a <=? 0) then None else Some (ar_relid a, attr_info a).

Lemma attr_row_ok v16 a : wf_attrow a ->
  let r := expected_row decode (attr_schema v16) (attr_ds v16 a) in
  attr_of_row r = attr_entry a /\ toInt (row_get r n_attnum) = ar_num a.
Proof.
  intros (Hr & Hn & Ht & Hl & Hnum & Ha & Hm).
  assert (AL : b2z (z2b (ar_align a)) = ar_align a) by (rewrite b2z_z2b; lia).
  destruct v16; unfold attr_ds, attr_schema, schemaPGAttrV16, schemaPGAttrV15, mkcol, d_u32, d_i16, d_sub;
    cbn [app expected_row expected_value c_name c_typid]; rewrite !dec_u32, dec_name, !dec_i16, dec_char by (try assumption; lia);
    unfold attr_of_row, attr_entry, attr_info;
    match goal with |- context [getOID ?r n_attrelid] => change (getOID r n_attrelid) with (ar_relid a);
       change (toInt (row_get r n_attnum)) with (ar_num a); change (toInt (row_get r n_attlen)) with (ar_len a);
       change (getOID r n_atttypid) with (ar_typid a); change (getString r n_attname) with (ar_name a);
       change (getString r n_attalign) with [z2b (ar_align a)] end;
    cbv beta iota; rewrite AL; split; reflexivity.
Qed.

(* the grouping loop *)
Definition lookup (m : gomap (list AttrInfo)) (k : Z) : list AttrInfo := match map_find m k with Some l => l | None => [] end.
Lemma lookup_append m k a k' :
  lookup (map_append m k a) k' = if k =? k' then lookup m k' ++ [a] else lookup m k'.
Proof.
  unfold lookup. induction m as [|[k0 l0] r IH]; cbn [map_append map_find].
  - destruct (k =? k'); reflexivity.
  - destruct (k0 =? k) eqn:E0; cbn [map_find].
    + destruct (k0 =? k') eqn:E1, (k =? k') eqn:E2; try reflexivity; lia.
    + destruct (k0 =? k') eqn:E1; [|exact IH]. replace (k =? k') with false by lia. reflexivity.
Qed.
Definition pick (k : Z) (e : option (Z * AttrInfo)) : list AttrInfo :=
  match e with Some (k', a) => if k' =? k then [a] else [] | None => [] end.
Lemma lookup_fold rows : forall m k,
  lookup (fold_left add_attr_row rows m) k = lookup m k ++ flat_map (fun r => pick k (attr_of_row r)) rows.
Proof.
  induction rows as [|r rs IH]; intros m k; cbn [fold_left flat_map]; [rewrite app_nil_r; reflexivity|].
  rewrite IH. unfold add_attr_row at 1. destruct (attr_of_row r) as [[k' a]|]; cbn [pick]; [|reflexivity].
  rewrite lookup_append. destruct (k' =? k); rewrite <- ?app_assoc; reflexivity.
Qed.
Lemma lookup_map_sort m k :
  lookup (map (fun kv : Z * list AttrInfo => (fst kv, isort ai_num (snd kv))) m) k = isort ai_num (lookup m k).
Proof.
  unfold lookup. induction m as [|[k0 l0] r IH]; [reflexivity|]. cbn [map map_find fst snd].
  destruct (k0 =? k); [reflexivity|exact IH].
Qed.

(* what ParsePGAttribute yields once the right schema is used: per relation, its attributes by attnum *)
Lemma attrs_of_rows v16 (l : list attrow) oid : Forall wf_attrow l -> 0 < oid ->
  attrs_get (map (fun kv : Z * list AttrInfo => (fst kv, isort ai_num (snd kv)))
                 (fold_left add_attr_row (map (fun a => expected_row decode (attr_schema v16) (attr_ds v16 a)) l) [])) oid =
  map attr_info (rel_atts l oid).
Proof.
  intros F Ho. change attrs_get with lookup. rewrite lookup_map_sort, lookup_fold. cbn [lookup map_find app].
  unfold rel_atts. rewrite <- (isort_map attr_info ai_num ar_num) by reflexivity. f_equal.
  induction F as [|a r Ha _ IH]; [reflexivity|]. cbn [map flat_map filter]. rewrite IH.
  destruct (attr_row_ok v16 a Ha) as [E _]. rewrite E. unfold attr_entry, pick.
  destruct (ar_relid a =? oid) eqn:E1.
  - replace (ar_relid a =? 0) with false by lia. cbn [orb andb].
    destruct (ar_num a <=? 0) eqn:E2.
    + replace (ar_num a >? 0) with false by lia. reflexivity.
    + replace (ar_num a >? 0) with true by lia. rewrite E1. reflexivity.
  - cbn [andb]. destruct ((ar_relid a =? 0) || (ar_num a <=? 0)); [reflexivity|]. rewrite E1. reflexivity.
Qed.

End Catalog.
