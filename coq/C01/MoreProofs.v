(* C01/MoreProofs.v — schema-only mode, independence of the map-iteration order (for ALL inputs), no panic. *)
Require Import PG.Base.Bytes PG.Base.GoSlice PG.Base.Value.
Require Import PG.C02.Model PG.C02.Refine PG.C03.Model PG.C03.Refine.
Require Import PG.C01.Lib PG.C01.Model PG.C01.Spec PG.C01.CatalogProofs.
Require Import Coq.Sorting.Permutation.

(* ---------- schema-only ---------- *)
Definition with_listonly (o : Options) (b : bool) : Options :=
  {| o_dbfilter := o_dbfilter o; o_tablefilter := o_tablefilter o; o_listonly := b; o_skipsys := o_skipsys o;
     o_pgversion := o_pgversion o |}.
Definition strip_table (t : TableDump) : TableDump :=
  {| td_oid := td_oid t; td_name := td_name t; td_filenode := td_filenode t; td_kind := td_kind t;
     td_columns := td_columns t; td_rows := []; td_rowcount := 0 |}.
Definition strip_db (d : DatabaseDump) : DatabaseDump :=
  {| dd_oid := dd_oid d; dd_name := dd_name d; dd_tables := map strip_table (dd_tables d) |}.

Section SchemaOnly.
Variable decode : bytes -> Z -> gval.
Variable ToLower : bytes -> bytes.
Variable TypeName : Z -> bytes.

Lemma expected_table_listonly d o k :
  expected_table decode TypeName d (with_listonly o true) k = strip_table (expected_table decode TypeName d (with_listonly o false) k).
Proof. reflexivity. Qed.

Lemma expected_tables_listonly d o :
  expected_tables decode ToLower TypeName d (with_listonly o true) =
  map strip_table (expected_tables decode ToLower TypeName d (with_listonly o false)).
Proof. unfold expected_tables. rewrite map_map. apply map_ext. intros k. apply expected_table_listonly. Qed.

Theorem expected_dump_listonly c o :
  expected_dump decode ToLower TypeName c (Some (with_listonly o true)) =
  map strip_db (expected_dump decode ToLower TypeName c (Some (with_listonly o false))).
Proof.
  unfold expected_dump. cbn [eff_opts]. induction (live_rows (cl_pgdb c)) as [|r rest IH]; [reflexivity|].
  cbn [flat_map]. rewrite map_app, IH. f_equal. unfold expected_db.
  change (db_selected (with_listonly o true) r) with (db_selected (with_listonly o false) r).
  destruct (db_selected (with_listonly o false) r); [|reflexivity].
  destruct (find_dir c (dr_oid r)) as [d|]; [|reflexivity]. destruct (dir_class d); [reflexivity|].
  cbn [map]. unfold strip_db. cbn [dd_oid dd_name dd_tables]. rewrite expected_tables_listonly. reflexivity.
Qed.

(* every table of a schema-only dump has no rows and row count 0 *)
Theorem expected_dump_listonly_empty c o :
  Forall (fun d => Forall (fun t => td_rows t = [] /\ td_rowcount t = 0) (dd_tables d))
         (expected_dump decode ToLower TypeName c (Some (with_listonly o true))).
Proof.
  rewrite expected_dump_listonly. apply Forall_forall. intros d Hd. apply in_map_iff in Hd. destruct Hd as (d0 & <- & _).
  apply Forall_forall. intros t Ht. cbn [strip_db dd_tables] in Ht. apply in_map_iff in Ht. destruct Ht as (t0 & <- & _).
  split; reflexivity.
Qed.
End SchemaOnly.

(* ---------- the result does not depend on the order in which Go visits the map (all inputs) ---------- *)
Section Order.
Variable DecodeType : gslice -> Z -> res gval.
Variable ToLower : bytes -> bytes.
Variable TypeName : Z -> bytes.
Variable slack : bytes -> bytes.

Theorem DumpDatabaseFromFiles_order ro1 ro2 :
  (forall l, Permutation l (ro1 l)) -> (forall l, Permutation l (ro2 l)) ->
  forall cd ad reader opts,
  DumpDatabaseFromFiles DecodeType ToLower TypeName ro1 cd ad reader opts =
  DumpDatabaseFromFiles DecodeType ToLower TypeName ro2 cd ad reader opts.
Proof.
  intros P1 P2 cd ad reader opts. unfold DumpDatabaseFromFiles.
  destruct (ParsePGClass DecodeType cd) as [tables|]; [|reflexivity]. cbn [bind].
  destruct (ParsePGAttribute DecodeType ad _) as [attrs|]; [|reflexivity]. cbn [bind].
  change (isort (fun x : Z => x)) with (isort idz).
  rewrite <- (isort_perm _ _ (P1 (map_keys tables))), <- (isort_perm _ _ (P2 (map_keys tables))). reflexivity.
Qed.

Theorem DumpDataDir_order ro1 ro2 :
  (forall l, Permutation l (ro1 l)) -> (forall l, Permutation l (ro2 l)) ->
  forall fs opts,
  DumpDataDir DecodeType ToLower TypeName ro1 slack fs opts = DumpDataDir DecodeType ToLower TypeName ro2 slack fs opts.
Proof.
  intros P1 P2 fs opts. unfold DumpDataDir. destruct (ReadFile slack fs PGlobal1262) as [dbData|]; [|reflexivity].
  destruct (ParsePGDatabase DecodeType dbData) as [dbs|]; [|reflexivity]. cbn [bind]. f_equal.
  induction dbs as [|db rest IH]; [reflexivity|]. cbn [dump_dbs].
  rewrite IH, (DumpDatabaseFromFiles_order ro1 ro2 P1 P2). reflexivity.
Qed.
End Order.

(* ---------- no panic, on ANY file system (every byte string in every file), for a total decoder ---------- *)
Section NoPanic.
Variable DecodeType : gslice -> Z -> res gval.
Variable decode : bytes -> Z -> gval.
Hypothesis DT_ok : forall s oid, DecodeType s oid = Ok (decode (vis s) oid).
Variable ToLower : bytes -> bytes.
Variable TypeName : Z -> bytes.
Variable range_order : list Z -> list Z.
Variable slack : bytes -> bytes.

Lemma decode_entries_total cols : forall es, exists rows, decode_entries DecodeType es cols = Ok rows.
Proof.
  induction es as [|e r [rows IH]]; [eexists; reflexivity|]. cbn [decode_entries].
  rewrite (DecodeTuple_refines DecodeType decode DT_ok). cbn [bind]. rewrite IH. cbn [bind]. eexists; reflexivity.
Qed.
Lemma ReadRows_total s cols vo : exists rows, ReadRows DecodeType s cols vo = Ok rows.
Proof.
  unfold ReadRows. destruct (ReadTuples_refines s vo) as (l & -> & _). cbn [bind]. apply decode_entries_total.
Qed.
Ltac total H := let x := fresh "x" in let E := fresh "E" in destruct H as [x E]; rewrite E; cbn [bind].

Lemma ParsePGDatabase_total s : exists r, ParsePGDatabase DecodeType s = Ok r.
Proof. unfold ParsePGDatabase. total (ReadRows_total s schemaPGDatabase true). eexists; reflexivity. Qed.
Lemma ParsePGClass_total s : exists r, ParsePGClass DecodeType s = Ok r.
Proof. unfold ParsePGClass. total (ReadRows_total s schemaPGClass true). eexists; reflexivity. Qed.
Lemma detectAttrSchema_total s v : exists r, detectAttrSchema DecodeType s v = Ok r.
Proof.
  unfold detectAttrSchema. destruct (v >=? 16); [eexists; reflexivity|]. destruct (v >=? 12); [eexists; reflexivity|].
  total (ReadRows_total s schemaPGAttrV16 true). destruct (_ && _); eexists; reflexivity.
Qed.
Lemma ParsePGAttribute_total s v : exists r, ParsePGAttribute DecodeType s v = Ok r.
Proof.
  unfold ParsePGAttribute. total (detectAttrSchema_total s v). total (ReadRows_total s x true). eexists; reflexivity.
Qed.
Lemma dumpTable_total fn info attrs reader opts : exists t, dumpTable DecodeType TypeName fn info attrs reader opts = Ok t.
Proof.
  unfold dumpTable. destruct (o_listonly opts); [eexists; reflexivity|]. destruct reader as [rd|]; [|eexists; reflexivity].
  destruct (rd fn) as [data|]; [|eexists; reflexivity]. destruct (len data =? 0); [eexists; reflexivity|].
  total (ReadRows_total data (map column_of_attr attrs) true). eexists; reflexivity.
Qed.
Lemma dump_tables_total tables attrs reader opts : forall fns,
  exists ts, dump_tables DecodeType ToLower TypeName tables attrs reader opts fns = Ok ts.
Proof.
  induction fns as [|fn r [ts IH]]; [eexists; reflexivity|]. cbn [dump_tables].
  destruct (table_wanted _ _ _); [|eexists; exact IH].
  total (dumpTable_total fn (match map_get tables fn with Some i => i | None => zeroTableInfo end)
                         (attrs_get attrs (ti_oid (match map_get tables fn with Some i => i | None => zeroTableInfo end))) reader opts).
  rewrite IH. cbn [bind]. eexists; reflexivity.
Qed.
Theorem DumpDatabaseFromFiles_total cd ad reader opts :
  exists d, DumpDatabaseFromFiles DecodeType ToLower TypeName range_order cd ad reader opts = Ok d.
Proof.
  unfold DumpDatabaseFromFiles. total (ParsePGClass_total cd). total (ParsePGAttribute_total ad (o_pgversion (withDefaults opts))).
  total (dump_tables_total x x0 reader (withDefaults opts) (isort (fun z => z) (range_order (map_keys x)))). eexists; reflexivity.
Qed.
Lemma dump_dbs_total fs opts : forall dbs,
  exists r, dump_dbs DecodeType ToLower TypeName range_order slack fs opts dbs = Ok r.
Proof.
  induction dbs as [|db rest [r IH]]; [eexists; reflexivity|]. cbn [dump_dbs].
  destruct (has_prefix _ _); [eexists; exact IH|]. destruct (_ && _); [eexists; exact IH|].
  destruct (len _ =? 0); [eexists; exact IH|].
  match goal with |- context [DumpDatabaseFromFiles _ _ _ _ ?a ?b ?c ?d] => total (DumpDatabaseFromFiles_total a b c d) end.
  rewrite IH. cbn [bind]. eexists; reflexivity.
Qed.
Theorem DumpDataDir_total fs opts :
  exists r, DumpDataDir DecodeType ToLower TypeName range_order slack fs opts = Ok r.
Proof.
  unfold DumpDataDir. destruct (ReadFile slack fs PGlobal1262) as [d|]; [|eexists; reflexivity].
  total (ParsePGDatabase_total d). total (dump_dbs_total fs (withDefaults opts) x). eexists; reflexivity.
Qed.
End NoPanic.
