(* Spec for C01: an abstract PostgreSQL cluster, the reference writer enc_cluster that lays it out as a data
   directory (global/1262, base/<db>/1259, base/<db>/1249, base/<db>/<filenode>) with the page/tuple writers of
   C02/C03, and expected_dump, which is defined on the abstract value only (filter / group / sort), never on bytes.

   The abstract value is relational, like the cluster itself: each heap file (catalog or user relation) is a list
   of blocks, each block a list of line-pointer items: a row version formed by heap_form_tuple for the file's
   schema (LIVE or DEAD according to its own hint bits, any other header bits), a dead tuple of any other shape
   (older schema, aborted insert ...), or an UNUSED/REDIRECT/DEAD line pointer; blocks may also be all-zero.
   So catalog rows are spread over as many pages as the value says, interleaved with dead versions wherever it says.
   The logical content (which databases, which relations, which attributes, which rows) is what the LIVE row
   versions say.  The catalog layouts are the tool's (the property's own wording): pg_database = (oid, datname),
   pg_class = the 17 leading attributes, pg_attribute = the 10 (PostgreSQL <= 15) or 9 (16) leading attributes. *)
Require Import PG.Base.Bytes PG.Base.GoSlice PG.Base.Value.
Require Import PG.C02.Spec PG.C03.Model PG.C03.Spec PG.C03.SpecProofs PG.C03.Main PG.C09.Spec.
Require Import PG.C01.Lib PG.C01.Model.

(* ---------------- heap files ---------------- *)
(* the parts of a stored tuple header the row content does not determine *)
Record vhdr := { vh_head : bytes;     (* 18 bytes: t_xmin, t_xmax, t_cid, t_ctid *)
                 vh_flags2 : Z;       (* high 5 bits of t_infomask2 *)
                 vh_mask_hi : Z;      (* t_infomask >> 1: every flag but HEAP_HASNULL, in particular the hint bits *)
                 vh_extra : Z }.      (* t_hoff = MAXALIGN(23 + bitmap) + 8 * extra *)
Inductive version (A : Type) :=
| VRow (h : vhdr) (a : A)            (* a version of row [a] formed for the file's schema *)
| VOld (t : tup)                     (* any other tuple; must not be live *)
| VStub (l : lp).                    (* LP_UNUSED / LP_REDIRECT / LP_DEAD *)
Arguments VRow {A}. Arguments VOld {A}. Arguments VStub {A}.
Record hpage (A : Type) := { hp_lsn : bytes; hp_prune : bytes; hp_items : list (version A) }.
Arguments hp_lsn {A}. Arguments hp_prune {A}. Arguments hp_items {A}.
Inductive hblock (A : Type) := HPage (p : hpage A) | HZero.
Arguments HPage {A}. Arguments HZero {A}.
Definition heap (A : Type) := list (hblock A).

(* HEAP_XMIN_COMMITTED && (HEAP_XMAX_INVALID || !HEAP_XMAX_COMMITTED), on t_infomask = hasnull + 2 * mask_hi *)
Definition vh_live (h : vhdr) : bool := live (2 * vh_mask_hi h).

Section Heap.
Context {A : Type}.
Variable cols : list Column.          (* the schema the rows were formed under *)
Variable to_ds : A -> list datum.     (* the stored form of a row *)

Definition row_tup (h : vhdr) (a : A) : tup :=
  stored_tuple (vh_head h) (vh_flags2 h) (vh_mask_hi h) (vh_extra h) cols (to_ds a).
Definition item_tup (v : version A) : option tup :=
  match v with VRow h a => Some (row_tup h a) | VOld t => Some t | VStub _ => None end.
Definition item_stub (v : version A) : lp :=
  match v with VStub l => l | _ => {| lp_off := 0; lp_flags := 0; lp_len := 0 |} end.

(* PageAddItem: line pointers in order; each tuple goes to the highest MAXALIGNed offset below the previous one *)
Definition down (pos : Z) (t : tup) : Z := (pos - tup_len t) / 8 * 8.
Fixpoint lay_up (items : list (version A)) (pos : Z) : Z :=
  match items with
  | [] => pos
  | it :: r => match item_tup it with None => lay_up r pos | Some t => lay_up r (down pos t) end
  end.
Fixpoint lay_lps (items : list (version A)) (pos : Z) : list (lp * option tup) :=
  match items with
  | [] => []
  | it :: r => match item_tup it with
               | None => (item_stub it, None) :: lay_lps r pos
               | Some t => ({| lp_off := down pos t; lp_flags := 1; lp_len := tup_len t |}, Some t) :: lay_lps r (down pos t)
               end
  end.
(* the bytes of [lay_up items pos, pos) *)
Fixpoint lay_img (items : list (version A)) (pos : Z) : bytes :=
  match items with
  | [] => []
  | it :: r => match item_tup it with
               | None => lay_img r pos
               | Some t => lay_img r (down pos t) ++ enc_tuple t ++ zeros (pos - down pos t - tup_len t)
               end
  end.
Definition page_lower (p : hpage A) : Z := 24 + 4 * Z.of_nat (length (hp_items p)).
Definition to_page (p : hpage A) : page :=
  let up := lay_up (hp_items p) 8192 in
  {| pg_lsn_etc := hp_lsn p; pg_upper := up; pg_special := 8192; pg_version := 4; pg_prune := hp_prune p;
     pg_lps := lay_lps (hp_items p) 8192;
     pg_body := zeros (up - page_lower p) ++ lay_img (hp_items p) 8192 |}.
Definition page_fits (p : hpage A) : bool := page_lower p <=? lay_up (hp_items p) 8192.

Definition to_block (b : hblock A) : block := match b with HPage p => BPage (to_page p) | HZero => BZero end.
Definition enc_heap (h : heap A) : bytes := enc_file (map to_block h) [].

Definition wf_vhdr (h : vhdr) (ds : list datum) : Prop :=
  blen (vh_head h) = 18 /\ 0 <= vh_flags2 h < 32 /\ 0 <= vh_mask_hi h < 32768 /\ 0 <= vh_extra h /\
  Z.of_nat (length ds) < 2048 /\ maxalign (23 + (Z.of_nat (length ds) + 7) / 8) + 8 * vh_extra h <= 255.
Variable payload_ok : A -> Prop.
Definition wf_version (v : version A) : Prop :=
  match v with
  | VRow h a => wf_vhdr h (to_ds a) /\ fits_prefix cols (to_ds a) /\ payload_ok a
  | VOld t => wf_tup t /\ live (tp_infomask t) = false
  | VStub l => 0 <= lp_off l < 32768 /\ 0 <= lp_len l < 32768 /\ (lp_flags l = 0 \/ lp_flags l = 2 \/ lp_flags l = 3)
  end.
Definition wf_hpage (p : hpage A) : Prop :=
  blen (hp_lsn p) = 12 /\ blen (hp_prune p) = 4 /\ Forall wf_version (hp_items p) /\ page_fits p = true.
Definition wf_hblock (b : hblock A) : Prop := match b with HPage p => wf_hpage p | HZero => True end.
Definition wf_heap (h : heap A) : Prop := Forall wf_hblock h.
End Heap.

(* the logical content of a heap file: the rows whose version is live, in physical order *)
Section Live.
Context {A : Type}.
Definition item_rows (v : version A) : list A := match v with VRow h a => if vh_live h then [a] else [] | _ => [] end.
Definition block_rows (b : hblock A) : list A := match b with HPage p => flat_map item_rows (hp_items p) | HZero => [] end.
Definition live_rows (h : heap A) : list A := flat_map block_rows h.
End Live.

(* ---------------- catalog rows ---------------- *)
(* NameData: 64 bytes, NUL-terminated and NUL-padded *)
Definition name64 (n : bytes) : bytes := n ++ zeros (64 - blen n).
Definition wf_name (n : bytes) : Prop := 1 <= blen n <= 63 /\ nul_free n.
Definition d_u32 (v : Z) : datum := DFixed (le_enc 4 v).
Definition d_i16 (v : Z) : datum := DFixed (le_enc 2 (v mod 65536)).
Definition d_sub (m : bytes) (lo hi : Z) : datum := DFixed (sub m lo hi).

Record dbrow := { dr_oid : Z; dr_name : bytes }.
Definition db_ds (d : dbrow) : list datum := [d_u32 (dr_oid d); DFixed (name64 (dr_name d))].
Definition wf_dbrow (d : dbrow) : Prop := 0 < dr_oid d < 2 ^ 32 /\ wf_name (dr_name d).

(* pg_class: oid, relname, relfilenode, relkind are what the dump uses; cr_misc = the bytes of the other 13 leading
   attributes (relnamespace reltype reloftype relowner relam | reltablespace relpages reltuples relallvisible
   reltoastrelid relhasindex relisshared relpersistence = 20 + 23 bytes), whatever they are *)
Record classrow := { cr_oid : Z; cr_name : bytes; cr_filenode : Z; cr_kind : Z; cr_misc : bytes }.
Definition class_ds (k : classrow) : list datum :=
  let m := cr_misc k in
  [d_u32 (cr_oid k); DFixed (name64 (cr_name k)); d_sub m 0 4; d_sub m 4 8; d_sub m 8 12; d_sub m 12 16; d_sub m 16 20;
   d_u32 (cr_filenode k); d_sub m 20 24; d_sub m 24 28; d_sub m 28 32; d_sub m 32 36; d_sub m 36 40;
   d_sub m 40 41; d_sub m 41 42; d_sub m 42 43; DFixed [z2b (cr_kind k)]].
Definition wf_classrow (k : classrow) : Prop :=
  0 < cr_oid k < 2 ^ 32 /\ 0 <= cr_filenode k < 2 ^ 32 /\ wf_name (cr_name k) /\ 0 <= cr_kind k < 256 /\
  blen (cr_misc k) = 43.

(* pg_attribute: ar_misc = attstattarget (4, only in the <= 15 layout), atttypmod (4), attndims (2), attbyval (1) *)
Record attrow := { ar_relid : Z; ar_name : bytes; ar_typid : Z; ar_len : Z; ar_num : Z; ar_align : Z; ar_misc : bytes }.
Definition attr_ds (v16 : bool) (a : attrow) : list datum :=
  let m := ar_misc a in
  [d_u32 (ar_relid a); DFixed (name64 (ar_name a)); d_u32 (ar_typid a)] ++
  (if v16 then [] else [d_sub m 0 4]) ++
  [d_i16 (ar_len a); d_i16 (ar_num a); d_sub m 4 8; d_sub m 8 10; d_sub m 10 11; DFixed [z2b (ar_align a)]].
Definition wf_attrow (a : attrow) : Prop :=
  0 <= ar_relid a < 2 ^ 32 /\ wf_name (ar_name a) /\ 0 <= ar_typid a < 2 ^ 32 /\
  - 32768 <= ar_len a < 32768 /\ - 32768 <= ar_num a < 32768 /\ 0 <= ar_align a < 256 /\ blen (ar_misc a) = 11.
Definition attr_schema (v16 : bool) : list Column := if v16 then schemaPGAttrV16 else schemaPGAttrV15.

(* ---------------- the cluster ---------------- *)
Record relfile := { rf_node : Z; rf_cols : list Column; rf_heap : heap (list datum) }.
Record dbdir := { dir_oid : Z; dir_class : heap classrow; dir_attr : heap attrow; dir_files : list relfile }.
Record cluster := { cl_v16 : bool;            (* which of the two pg_attribute layouts the cluster uses *)
                    cl_pgdb : heap dbrow; cl_dirs : list dbdir }.

Definition find_dir (c : cluster) (oid : Z) : option dbdir := find (fun d => dir_oid d =? oid) (cl_dirs c).
Definition find_file (d : dbdir) (fn : Z) : option relfile := find (fun r => rf_node r =? fn) (dir_files d).
Definition idds (ds : list datum) : list datum := ds.

Definition enc_cluster (c : cluster) : path -> option bytes := fun p =>
  match p with
  | PGlobal1262 => Some (enc_heap schemaPGDatabase db_ds (cl_pgdb c))
  | PBase db f =>
    match find_dir c db with
    | None => None
    | Some d =>
      if f =? 1259 then Some (enc_heap schemaPGClass class_ds (dir_class d))
      else if f =? 1249 then Some (enc_heap (attr_schema (cl_v16 c)) (attr_ds (cl_v16 c)) (dir_attr d))
      else match find_file d f with
           | None => None
           | Some r => Some (enc_heap (rf_cols r) idds (rf_heap r))
           end
    end
  end.

(* a relation's attributes: the live pg_attribute rows of that relation with a positive attnum, by attnum *)
Definition rel_atts (attrs : list attrow) (oid : Z) : list attrow :=
  isort ar_num (filter (fun a => (ar_relid a =? oid) && (ar_num a >? 0)) attrs).
Definition col_of_att (a : attrow) : Column :=
  {| c_name := ar_name a; c_typid := ar_typid a; c_len := ar_len a; c_num := ar_num a; c_align := ar_align a |}.
Definition rel_cols (attrs : list attrow) (oid : Z) : list Column := map col_of_att (rel_atts attrs oid).

(* an ordinary table with storage *)
Definition dumpable (k : classrow) : bool := (cr_filenode k >? 0) && (cr_kind k =? 114).   (* 'r' *)

Definition wf_dir (v16 : bool) (d : dbdir) : Prop :=
  wf_heap schemaPGClass class_ds wf_classrow (dir_class d) /\
  wf_heap (attr_schema v16) (attr_ds v16) wf_attrow (dir_attr d) /\
  (* filenodes are unique among relations with storage; (attrelid, attnum) is a key of pg_attribute *)
  NoDup (map cr_filenode (filter (fun k => cr_filenode k >? 0) (live_rows (dir_class d)))) /\
  NoDup (map (fun a => (ar_relid a, ar_num a)) (live_rows (dir_attr d))) /\
  forall k, In k (live_rows (dir_class d)) -> dumpable k = true ->
    cr_filenode k <> 1259 /\ cr_filenode k <> 1249 /\
    forall rf, find_file d (cr_filenode k) = Some rf ->
      let cols := rel_cols (live_rows (dir_attr d)) (cr_oid k) in
      (* the file's rows were formed under the relation's catalog schema: attnums 1..n, at least one column
         (rows of a zero-column table: known finding C01-zero-column-rows), rows storable plain *)
      rf_cols rf = cols /\ cols <> [] /\ nums_ok cols 0 /\ wf_heap cols idds (fun _ => True) (rf_heap rf).
Definition wf_cluster (c : cluster) : Prop :=
  wf_heap schemaPGDatabase db_ds wf_dbrow (cl_pgdb c) /\ Forall (wf_dir (cl_v16 c)) (cl_dirs c).

(* ---------------- what the dump must be ---------------- *)
Definition eff_opts (o : option Options) : Options :=     (* no options = skip pg_* tables, nothing else *)
  match o with
  | None => {| o_dbfilter := []; o_tablefilter := []; o_listonly := false; o_skipsys := true; o_pgversion := 0 |}
  | Some o => o
  end.

Section Expected.
Variable decode : bytes -> Z -> gval.      (* the scalar decoder's result on a payload (C04..C07) *)
Variable ToLower : bytes -> bytes.         (* case folding (strings.ToLower) *)
Variable TypeName : Z -> bytes.            (* the tool's display name of a type id *)

Definition db_selected (o : Options) (d : dbrow) : bool :=
  negb (has_prefix (dr_name d) s_template) &&                              (* template0, template1, ... *)
  ((blen (o_dbfilter o) =? 0) || beq (dr_name d) (o_dbfilter o)).          (* exact database filter *)
Definition table_selected (o : Options) (k : classrow) : bool :=
  dumpable k &&
  negb (o_skipsys o && has_prefix (cr_name k) s_pg_) &&
  ((blen (o_tablefilter o) =? 0) || contains (ToLower (cr_name k)) (ToLower (o_tablefilter o))).

Definition expected_table (d : dbdir) (o : Options) (k : classrow) : TableDump :=
  let atts := rel_atts (live_rows (dir_attr d)) (cr_oid k) in
  let cols := map col_of_att atts in
  let rows := if o_listonly o then [] else
              match find_file d (cr_filenode k) with
              | None => []
              | Some rf => map (expected_row decode cols) (live_rows (rf_heap rf))
              end in
  {| td_oid := cr_oid k; td_name := cr_name k; td_filenode := cr_filenode k; td_kind := [z2b (cr_kind k)];
     td_columns := map (fun a => {| ci_name := ar_name a; ci_type := TypeName (ar_typid a); ci_typid := ar_typid a |}) atts;
     td_rows := rows; td_rowcount := Z.of_nat (length rows) |}.
Definition expected_tables (d : dbdir) (o : Options) : list TableDump :=
  map (expected_table d o) (isort cr_filenode (filter (table_selected o) (live_rows (dir_class d)))).

Definition expected_db (c : cluster) (o : Options) (r : dbrow) : list DatabaseDump :=
  if db_selected o r then
    match find_dir c (dr_oid r) with
    | None => []                                   (* no directory: nothing can be listed *)
    | Some d => match dir_class d with
                | [] => []                         (* empty pg_class file *)
                | _ => [{| dd_oid := dr_oid r; dd_name := dr_name r; dd_tables := expected_tables d o |}]
                end
    end
  else [].
Definition expected_dump (c : cluster) (opts : option Options) : list DatabaseDump :=
  flat_map (expected_db c (eff_opts opts)) (live_rows (cl_pgdb c)).
End Expected.

(* ---------------- pg_attribute layout detection (D62) ---------------- *)
Fixpoint nums_from (l : list Z) (i : Z) (n : nat) {struct n} : bool :=
  match n with O => true | S k => match l with [] => false | x :: r => (x =? i) && nums_from r (i + 1) k end end.
(* the first five live pg_attribute rows carry attnum 1..5 *)
Definition first_five_ok (l : list attrow) : bool := nums_from (map ar_num l) 1 5.
(* a <= 15 layout whose first five live rows carry 1..5 in the HIGH half of attstattarget, where the 16 layout has
   attnum (PostgreSQL keeps attstattarget in -1..10000, whose high half is 0 or 0xFFFF) *)
Definition v15_looks_v16 (l : list attrow) : bool :=
  nums_from (map (fun a => sint16 (le_dec (sub (ar_misc a) 2 4))) l) 1 5.
(* the layout the tool uses is the cluster's: the hint names it, or auto-detection (hint < 12) gets it right *)
Definition detect_ok_attrs (v16 : bool) (hint : Z) (l : list attrow) : bool :=
  if hint >=? 16 then v16 else if hint >=? 12 then negb v16 else
  if v16 then first_five_ok l else negb (v15_looks_v16 l).
Definition detect_ok (c : cluster) (opts : option Options) : Prop :=
  forall d, In d (cl_dirs c) -> detect_ok_attrs (cl_v16 c) (o_pgversion (eff_opts opts)) (live_rows (dir_attr d)) = true.
