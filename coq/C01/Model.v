(* Model of pgdump/catalog.go (fixed catalog schemas, ParsePGDatabase, ParsePGClass, ParsePGAttribute,
   detectAttrSchema, getOID, getString; toInt of binary.go) and of the dump path of pgdump/pgdump.go
   (DumpDataDir, DumpDatabaseFromFiles as repaired by "fix: DumpDatabaseFromFiles listed tables in Go map-iteration
   order", dumpTable, withDefaults; ParseFile is C02.Model.ParseFile).
   One definition per Go function, same name.  The heap layer (ReadRows = ReadTuples + DecodeTuple) is the
   C02/C03 model, imported.  What is not logic is a Section variable:
     DecodeType   C04-C07's decoder (hypotheses about it are stated where the theorems need them)
     ToLower      strings.ToLower (Unicode case tables)
     TypeName     the oid -> name table of types.go (C04)
     range_order  the order in which THIS run's `for k := range m` visits the keys of a Go map
     slack        the spare capacity os.ReadFile leaves behind the bytes it returns *)
Require Import PG.Base.Bytes PG.Base.GoSlice PG.Base.Value PG.C02.Model PG.C03.Model PG.C01.Lib.

(* ---------------- column names ---------------- *)
Definition n_oid : bytes := ["o"; "i"; "d"]%byte.
Definition n_datname : bytes := ["d"; "a"; "t"; "n"; "a"; "m"; "e"]%byte.
Definition n_relname : bytes := ["r"; "e"; "l"; "n"; "a"; "m"; "e"]%byte.
Definition n_relnamespace : bytes := ["r"; "e"; "l"; "n"; "a"; "m"; "e"; "s"; "p"; "a"; "c"; "e"]%byte.
Definition n_reltype : bytes := ["r"; "e"; "l"; "t"; "y"; "p"; "e"]%byte.
Definition n_reloftype : bytes := ["r"; "e"; "l"; "o"; "f"; "t"; "y"; "p"; "e"]%byte.
Definition n_relowner : bytes := ["r"; "e"; "l"; "o"; "w"; "n"; "e"; "r"]%byte.
Definition n_relam : bytes := ["r"; "e"; "l"; "a"; "m"]%byte.
Definition n_relfilenode : bytes := ["r"; "e"; "l"; "f"; "i"; "l"; "e"; "n"; "o"; "d"; "e"]%byte.
Definition n_reltablespace : bytes := ["r"; "e"; "l"; "t"; "a"; "b"; "l"; "e"; "s"; "p"; "a"; "c"; "e"]%byte.
Definition n_relpages : bytes := ["r"; "e"; "l"; "p"; "a"; "g"; "e"; "s"]%byte.
Definition n_reltuples : bytes := ["r"; "e"; "l"; "t"; "u"; "p"; "l"; "e"; "s"]%byte.
Definition n_relallvisible : bytes := ["r"; "e"; "l"; "a"; "l"; "l"; "v"; "i"; "s"; "i"; "b"; "l"; "e"]%byte.
Definition n_reltoastrelid : bytes := ["r"; "e"; "l"; "t"; "o"; "a"; "s"; "t"; "r"; "e"; "l"; "i"; "d"]%byte.
Definition n_relhasindex : bytes := ["r"; "e"; "l"; "h"; "a"; "s"; "i"; "n"; "d"; "e"; "x"]%byte.
Definition n_relisshared : bytes := ["r"; "e"; "l"; "i"; "s"; "s"; "h"; "a"; "r"; "e"; "d"]%byte.
Definition n_relpersistence : bytes := ["r"; "e"; "l"; "p"; "e"; "r"; "s"; "i"; "s"; "t"; "e"; "n"; "c"; "e"]%byte.
Definition n_relkind : bytes := ["r"; "e"; "l"; "k"; "i"; "n"; "d"]%byte.
Definition n_attrelid : bytes := ["a"; "t"; "t"; "r"; "e"; "l"; "i"; "d"]%byte.
Definition n_attname : bytes := ["a"; "t"; "t"; "n"; "a"; "m"; "e"]%byte.
Definition n_atttypid : bytes := ["a"; "t"; "t"; "t"; "y"; "p"; "i"; "d"]%byte.
Definition n_attstattarget : bytes := ["a"; "t"; "t"; "s"; "t"; "a"; "t"; "t"; "a"; "r"; "g"; "e"; "t"]%byte.
Definition n_attlen : bytes := ["a"; "t"; "t"; "l"; "e"; "n"]%byte.
Definition n_attnum : bytes := ["a"; "t"; "t"; "n"; "u"; "m"]%byte.
Definition n_atttypmod : bytes := ["a"; "t"; "t"; "t"; "y"; "p"; "m"; "o"; "d"]%byte.
Definition n_attndims : bytes := ["a"; "t"; "t"; "n"; "d"; "i"; "m"; "s"]%byte.
Definition n_attbyval : bytes := ["a"; "t"; "t"; "b"; "y"; "v"; "a"; "l"]%byte.
Definition n_attalign : bytes := ["a"; "t"; "t"; "a"; "l"; "i"; "g"; "n"]%byte.

(* types.go: OidBool 16, OidChar 18, OidName 19, OidInt2 21, OidInt4 23, OidOid 26, OidFloat4 700 *)
Definition OidBool := 16. Definition OidChar := 18. Definition OidName := 19. Definition OidInt2 := 21.
Definition OidInt4 := 23. Definition OidOid := 26. Definition OidFloat4 := 700.

(* {Name: n, TypID: t, Len: l}: Num and Align are left at their zero values *)
Definition mkcol (n : bytes) (t l : Z) : Column := {| c_name := n; c_typid := t; c_len := l; c_num := 0; c_align := 0 |}.

(* catalog.go:45-48 *)
Definition schemaPGDatabase : list Column := [mkcol n_oid OidOid 4; mkcol n_datname OidName 64].
(* catalog.go:50-68 *)
Definition schemaPGClass : list Column :=
  [mkcol n_oid OidOid 4; mkcol n_relname OidName 64; mkcol n_relnamespace OidOid 4; mkcol n_reltype OidOid 4;
   mkcol n_reloftype OidOid 4; mkcol n_relowner OidOid 4; mkcol n_relam OidOid 4; mkcol n_relfilenode OidOid 4;
   mkcol n_reltablespace OidOid 4; mkcol n_relpages OidInt4 4; mkcol n_reltuples OidFloat4 4;
   mkcol n_relallvisible OidInt4 4; mkcol n_reltoastrelid OidOid 4; mkcol n_relhasindex OidBool 1;
   mkcol n_relisshared OidBool 1; mkcol n_relpersistence OidChar 1; mkcol n_relkind OidChar 1].
(* catalog.go:71-82 *)
Definition schemaPGAttrV15 : list Column :=
  [mkcol n_attrelid OidOid 4; mkcol n_attname OidName 64; mkcol n_atttypid OidOid 4; mkcol n_attstattarget OidInt4 4;
   mkcol n_attlen OidInt2 2; mkcol n_attnum OidInt2 2; mkcol n_atttypmod OidInt4 4; mkcol n_attndims OidInt2 2;
   mkcol n_attbyval OidBool 1; mkcol n_attalign OidChar 1].
(* catalog.go:85-95 *)
Definition schemaPGAttrV16 : list Column :=
  [mkcol n_attrelid OidOid 4; mkcol n_attname OidName 64; mkcol n_atttypid OidOid 4;
   mkcol n_attlen OidInt2 2; mkcol n_attnum OidInt2 2; mkcol n_atttypmod OidInt4 4; mkcol n_attndims OidInt2 2;
   mkcol n_attbyval OidBool 1; mkcol n_attalign OidChar 1].

(* ---------------- DecodeType on the catalog columns ---------------- *)
(* What DecodeType (types.go decodeScalar, owned by C04) returns for the seven (type id, width) pairs the catalog
   schemas use: oid -> uint32, name -> the bytes before the first NUL (cstring(data, 64)), int2 -> int16,
   int4 -> int32, bool -> data[0] != 0, "char" -> string(data[:1]), float4 -> the float32 with those bits. *)
Definition cat_len (oid : Z) : Z :=
  if oid =? 26 then 4 else if oid =? 19 then 64 else if oid =? 21 then 2 else if oid =? 23 then 4
  else if oid =? 16 then 1 else if oid =? 18 then 1 else if oid =? 700 then 4 else 0.
Fixpoint cstr_take (bs : bytes) : bytes :=
  match bs with [] => [] | b :: r => if b2z b =? 0 then [] else b :: cstr_take r end.
Definition cat_decode (bs : bytes) (oid : Z) : gval :=
  if oid =? 26 then VU32 (le_dec bs) else if oid =? 19 then VStr (cstr_take bs)
  else if oid =? 21 then VI16 (sint16 (le_dec bs)) else if oid =? 23 then VI32 (sint32 (le_dec bs))
  else if oid =? 16 then VBool (negb (le_dec bs =? 0)) else if oid =? 18 then VStr bs
  else if oid =? 700 then VF32 (le_dec bs) else VNil.
(* "DecodeType agrees with cat_decode on the catalog oids" (for a decoder that depends on the visible bytes only) *)
Definition agrees_on_catalog (decode : bytes -> Z -> gval) : Prop :=
  forall bs oid, cat_len oid <> 0 -> blen bs = cat_len oid -> decode bs oid = cat_decode bs oid.

(* ---------------- Go maps ---------------- *)
(* row[key] on the map DecodeTuple built by successive assignments: the LAST assignment to the key wins *)
Fixpoint row_get (r : row) (k : bytes) : option gval :=
  match r with
  | [] => None
  | (k', v) :: rest => match row_get rest k with
                       | Some v' => Some v'
                       | None => if beq k' k then Some v else None
                       end
  end.
(* catalog.go:185-190  v, ok := row[key].(uint32) *)
Definition getOID (r : row) (k : bytes) : Z := match row_get r k with Some (VU32 v) => v | _ => 0 end.
(* catalog.go:192-197  v, ok := row[key].(string) *)
Definition getString (r : row) (k : bytes) : bytes := match row_get r k with Some (VStr s) => s | _ => [] end.
(* binary.go:55-72  toInt(row[key]); a missing key is the nil interface -> default branch; int(n) is the identity on
   a 64-bit platform for every listed type *)
Definition toInt (v : option gval) : Z :=
  match v with
  | Some (VInt n) | Some (VI16 n) | Some (VI32 n) | Some (VI64 n) | Some (VU32 n) | Some (VU16 n) => n
  | _ => 0
  end.

(* a map[uint32]V as the log of its assignments m[k] = v in execution order *)
Definition gomap (V : Type) := list (Z * V).
Fixpoint map_get {V} (m : gomap V) (k : Z) : option V :=
  match m with
  | [] => None
  | (k', v) :: rest => match map_get rest k with Some v' => Some v' | None => if k' =? k then Some v else None end
  end.
(* the distinct keys, in order of first assignment (a canonical enumeration; the order Go visits them is range_order) *)
Fixpoint map_keys_acc {V} (m : gomap V) (seen : list Z) : list Z :=
  match m with
  | [] => []
  | (k, _) :: rest => if memZ k seen then map_keys_acc rest seen else k :: map_keys_acc rest (k :: seen)
  end.
Definition map_keys {V} (m : gomap V) : list Z := map_keys_acc m [].

Section Model.
Variable DecodeType : gslice -> Z -> res gval.
Variable ToLower : bytes -> bytes.
Variable TypeName : Z -> bytes.
Variable range_order : list Z -> list Z.
Variable slack : bytes -> bytes.

(* ---------------- catalog.go ---------------- *)
(* catalog.go:99-107 *)
Definition db_of_row (r : row) : list DatabaseInfo :=
  let oid := getOID r n_oid in let name := getString r n_datname in
  if (oid >? 0) && negb (blen name =? 0) then [{| db_oid := oid; db_name := name |}] else [].
Definition ParsePGDatabase (data : gslice) : res (list DatabaseInfo) :=
  rows <- ReadRows DecodeType data schemaPGDatabase true ;;
  Ok (flat_map db_of_row rows).

(* catalog.go:110-123 *)
Definition class_of_row (r : row) : gomap TableInfo :=
  let fn := getOID r n_relfilenode in
  if fn >? 0 then [(fn, {| ti_oid := getOID r n_oid; ti_name := getString r n_relname; ti_filenode := fn;
                           ti_kind := getString r n_relkind |})] else [].
Definition ParsePGClass (data : gslice) : res (gomap TableInfo) :=
  rows <- ReadRows DecodeType data schemaPGClass true ;;
  Ok (flat_map class_of_row rows).

(* catalog.go:160-183 *)
Fixpoint first_match (rows : list row) (i : Z) (n : nat) {struct n} : bool :=      (* for i := 0; i < 5; i++ { rows[i]["attnum"] != i+1 } *)
  match n with
  | O => true
  | S k => match rows with
           | [] => true     (* unreachable: guarded by len(rows) >= 5 *)
           | r :: rest => if toInt (row_get r n_attnum) =? i + 1 then first_match rest (i + 1) k else false
           end
  end.
Definition detectAttrSchema (data : gslice) (version : Z) : res (list Column) :=
  if version >=? 16 then Ok schemaPGAttrV16 else
  if version >=? 12 then Ok schemaPGAttrV15 else
  rows <- ReadRows DecodeType data schemaPGAttrV16 true ;;
  if (Z.of_nat (length rows) >=? 5) && first_match rows 0 5 then Ok schemaPGAttrV16 else Ok schemaPGAttrV15.

(* catalog.go:131-148: one row -> (relid, AttrInfo) or skipped *)
Definition attr_of_row (r : row) : option (Z * AttrInfo) :=
  let relid := getOID r n_attrelid in let num := toInt (row_get r n_attnum) in
  if (relid =? 0) || (num <=? 0) then None else
  let alignByte := match getString r n_attalign with [] => 105 (* 'i' *) | b :: _ => b2z b end in
  Some (relid, {| ai_name := getString r n_attname; ai_typid := getOID r n_atttypid; ai_num := num;
                  ai_len := toInt (row_get r n_attlen); ai_align := alignByte |}).
(* result[relid] = append(result[relid], a): a map whose keys stay distinct *)
Fixpoint map_append (m : gomap (list AttrInfo)) (k : Z) (a : AttrInfo) : gomap (list AttrInfo) :=
  match m with
  | [] => [(k, [a])]
  | (k', l) :: rest => if k' =? k then (k', l ++ [a]) :: rest else (k', l) :: map_append rest k a
  end.
Definition add_attr_row (m : gomap (list AttrInfo)) (r : row) : gomap (list AttrInfo) :=
  match attr_of_row r with Some (k, a) => map_append m k a | None => m end.
(* catalog.go:126-158.  The final `for relid := range result { sort.Slice(result[relid], Num <) }` touches only
   result[relid] in each iteration, so the visiting order cannot influence the outcome; sort.Slice is an insertion
   sort for up to 12 elements and is only determined up to the order of equal keys beyond that. *)
Definition ParsePGAttribute (data : gslice) (pgVersion : Z) : res (gomap (list AttrInfo)) :=
  schema <- detectAttrSchema data pgVersion ;;
  rows <- ReadRows DecodeType data schema true ;;
  Ok (map (fun kv => (fst kv, isort ai_num (snd kv))) (fold_left add_attr_row rows [])).
(* attrs[oid]: nil when absent.  This map is built by map_append only, which keeps its keys distinct, so the
   representation is the map's current state and lookup is "the entry with that key". *)
Fixpoint map_find {V} (m : gomap V) (k : Z) : option V :=
  match m with [] => None | (k', v) :: rest => if k' =? k then Some v else map_find rest k end.
Definition attrs_get (m : gomap (list AttrInfo)) (oid : Z) : list AttrInfo :=
  match map_find m oid with Some l => l | None => [] end.

(* ---------------- pgdump.go ---------------- *)
(* pgdump.go:214-219 *)
Definition withDefaults (opts : option Options) : Options :=
  match opts with
  | None => {| o_dbfilter := []; o_tablefilter := []; o_listonly := false; o_skipsys := true; o_pgversion := 0 |}
  | Some o => o
  end.

Definition column_of_attr (a : AttrInfo) : Column :=
  {| c_name := ai_name a; c_typid := ai_typid a; c_len := ai_len a; c_num := ai_num a; c_align := ai_align a |}.
Definition colinfo_of_attr (a : AttrInfo) : ColumnInfo :=
  {| ci_name := ai_name a; ci_type := TypeName (ai_typid a); ci_typid := ai_typid a |}.

(* pgdump.go:179-212.  reader: None = a nil FileReader; reader fn = None: the reader returned an error *)
Definition dumpTable (filenode : Z) (info : TableInfo) (attrs : list AttrInfo)
                     (reader : option (Z -> option gslice)) (opts : Options) : res TableDump :=
  let t := {| td_oid := ti_oid info; td_name := ti_name info; td_filenode := filenode; td_kind := ti_kind info;
              td_columns := map colinfo_of_attr attrs; td_rows := []; td_rowcount := 0 |} in
  if o_listonly opts then Ok t else
  match reader with
  | None => Ok t
  | Some rd =>
    match rd filenode with
    | None => Ok t
    | Some data =>
      if len data =? 0 then Ok t else
      rows <- ReadRows DecodeType data (map column_of_attr attrs) true ;;
      Ok {| td_oid := ti_oid info; td_name := ti_name info; td_filenode := filenode; td_kind := ti_kind info;
            td_columns := map colinfo_of_attr attrs; td_rows := rows; td_rowcount := Z.of_nat (length rows) |}
    end
  end.

(* the body of  for _, filenode := range filenodes  (pgdump.go:162-175) *)
Definition zeroTableInfo : TableInfo := {| ti_oid := 0; ti_filenode := 0; ti_name := []; ti_kind := [] |}.
Definition table_wanted (opts : Options) (info : TableInfo) : bool :=
  negb (negb (beq (ti_kind info) s_r) && negb (beq (ti_kind info) [])) &&
  negb (o_skipsys opts && has_prefix (ti_name info) s_pg_) &&
  negb (negb (beq (o_tablefilter opts) []) &&
        negb (contains (ToLower (ti_name info)) (ToLower (o_tablefilter opts)))).
Fixpoint dump_tables (tables : gomap TableInfo) (attrs : gomap (list AttrInfo))
                     (reader : option (Z -> option gslice)) (opts : Options) (fns : list Z) : res (list TableDump) :=
  match fns with
  | [] => Ok []
  | filenode :: rest =>
    let info := match map_get tables filenode with Some i => i | None => zeroTableInfo end in
    if table_wanted opts info then
      t <- dumpTable filenode info (attrs_get attrs (ti_oid info)) reader opts ;;
      r <- dump_tables tables attrs reader opts rest ;; Ok (t :: r)
    else dump_tables tables attrs reader opts rest
  end.

(* pgdump.go:148-177 (repaired): keys collected by ranging over the map, then sorted ascending *)
Definition DumpDatabaseFromFiles (classData attrData : gslice) (reader : option (Z -> option gslice))
                                 (opts : option Options) : res DatabaseDump :=
  let opts := withDefaults opts in
  tables <- ParsePGClass classData ;;
  attrs <- ParsePGAttribute attrData (o_pgversion opts) ;;
  let filenodes := isort (fun x => x) (range_order (map_keys tables)) in
  ts <- dump_tables tables attrs reader opts filenodes ;;
  Ok {| dd_oid := 0; dd_name := []; dd_tables := ts |}.

(* os.ReadFile: the bytes of the file, with whatever capacity the runtime left behind them *)
Definition ReadFile (fs : path -> option bytes) (p : path) : option gslice :=
  match fs p with Some b => Some {| vis := b; tail := slack b |} | None => None end.
Definition nil_slice : gslice := {| vis := []; tail := [] |}.

(* the body of  for _, db := range ParsePGDatabase(dbData)  (pgdump.go:119-143) *)
Fixpoint dump_dbs (fs : path -> option bytes) (opts : Options) (dbs : list DatabaseInfo) : res (list DatabaseDump) :=
  match dbs with
  | [] => Ok []
  | db :: rest =>
    if has_prefix (db_name db) s_template then dump_dbs fs opts rest else
    if negb (beq (o_dbfilter opts) []) && negb (beq (db_name db) (o_dbfilter opts)) then dump_dbs fs opts rest else
    (* classData, _ := os.ReadFile(...): nil on error *)
    let classData := match ReadFile fs (PBase (db_oid db) 1259) with Some d => d | None => nil_slice end in
    let attrData := match ReadFile fs (PBase (db_oid db) 1249) with Some d => d | None => nil_slice end in
    if len classData =? 0 then dump_dbs fs opts rest else
    let reader := fun fn => ReadFile fs (PBase (db_oid db) fn) in
    d <- DumpDatabaseFromFiles classData attrData (Some reader) (Some opts) ;;
    r <- dump_dbs fs opts rest ;;
    Ok ({| dd_oid := db_oid db; dd_name := db_name db; dd_tables := dd_tables d |} :: r)
  end.

(* pgdump.go:110-146; None = (nil, err) *)
Definition DumpDataDir (fs : path -> option bytes) (opts : option Options) : res (option (list DatabaseDump)) :=
  let opts := withDefaults opts in
  match ReadFile fs PGlobal1262 with
  | None => Ok None
  | Some dbData =>
    dbs <- ParsePGDatabase dbData ;;
    r <- dump_dbs fs opts dbs ;;
    Ok (Some r)
  end.

End Model.
