(* Instantiation used by the driver (guide §10).  DecodeType: the exact catalog model cat_decode on the seven
   (type id, width) pairs of the catalog schemas, the placeholder of C03/Inst.v (which bytes and which type id were
   handed over) everywhere else, so user-table values of other types stay placeholders that the harness replaces by
   the real DecodeType result.  TypeName: a placeholder string the harness replaces by the real TypeName(oid).
   ToLower: ASCII case folding (the generator only draws names on which Go's strings.ToLower is that).
   range_order: list reversal — any permutation gives the same result (C01_order_independent).
   slack: one spare byte, what os.ReadFile leaves. *)
Require Import PG.Base.Bytes PG.Base.GoSlice PG.Base.Value PG.C02.Model PG.C03.Model PG.C03.Spec PG.C03.Inst.
Require Import PG.C01.Lib PG.C01.Model PG.C01.Spec.

Definition hy_decode (bs : bytes) (oid : Z) : gval :=
  if negb (cat_len oid =? 0) && (blen bs =? cat_len oid) then cat_decode bs oid else ph_decode bs oid.
Definition hy_DecodeType (s : gslice) (oid : Z) : res gval := Ok (hy_decode (vis s) oid).
(* "\000tn" ++ the type id as 4 little-endian bytes *)
Definition ph_TypeName (oid : Z) : bytes := [x00; x74; x6e] ++ le_enc 4 oid.
(* strings.ToLower on the alphabet the generator uses: ASCII, and the Latin-1 letters U+00C0..U+00DE (UTF-8 C3 80..9E except
   C3 97, the multiplication sign) which go to U+00E0..U+00FE; every other byte is kept *)
Fixpoint i_ToLower (s : bytes) : bytes :=
  match s with
  | [] => []
  | a :: r =>
      match r with
      | b :: r' =>
          if (b2z a =? 195) && (128 <=? b2z b) && (b2z b <=? 158) && negb (b2z b =? 151)
          then a :: z2b (b2z b + 32) :: i_ToLower r'
          else lower_byte a :: i_ToLower r
      | [] => [lower_byte a]
      end
  end.
Definition i_range_order (l : list Z) : list Z := rev l.
Definition i_slack (b : bytes) : bytes := [x00].

Definition ParsePGDatabase_i := ParsePGDatabase hy_DecodeType.
Definition ParsePGClass_i := ParsePGClass hy_DecodeType.
Definition ParsePGAttribute_i := ParsePGAttribute hy_DecodeType.
Definition detectAttrSchema_i := detectAttrSchema hy_DecodeType.
Definition dumpTable_i := dumpTable hy_DecodeType ph_TypeName.
Definition DumpDatabaseFromFiles_i := DumpDatabaseFromFiles hy_DecodeType i_ToLower ph_TypeName i_range_order.
Definition DumpDatabaseFromFiles_id := DumpDatabaseFromFiles hy_DecodeType i_ToLower ph_TypeName (fun l => l).
Definition DumpDataDir_i := DumpDataDir hy_DecodeType i_ToLower ph_TypeName i_range_order i_slack.
Definition expected_dump_i := expected_dump hy_decode i_ToLower ph_TypeName.
Definition expected_tables_i := expected_tables hy_decode i_ToLower ph_TypeName.
Definition expected_row_hy := expected_row hy_decode.
