(* C01_rowcount: in every result of the model, on ANY file system / byte strings, RowCount = len(Rows). *)
Require Import PG.Base.Bytes PG.Base.GoSlice PG.Base.Value PG.C02.Model PG.C03.Model PG.C01.Lib PG.C01.Model.

Section Rowcount.
Variable DecodeType : gslice -> Z -> res gval.
Variable ToLower : bytes -> bytes.
Variable TypeName : Z -> bytes.
Variable range_order : list Z -> list Z.
Variable slack : bytes -> bytes.

Definition count_ok (t : TableDump) : Prop := td_rowcount t = Z.of_nat (length (td_rows t)).

Lemma dumpTable_count fn info attrs reader opts t :
  dumpTable DecodeType TypeName fn info attrs reader opts = Ok t -> count_ok t.
Proof.
  unfold dumpTable, count_ok. destruct (o_listonly opts); [intros [= <-]; reflexivity|].
  destruct reader as [rd|]; [|intros [= <-]; reflexivity].
  destruct (rd fn) as [data|]; [|intros [= <-]; reflexivity].
  destruct (len data =? 0); [intros [= <-]; reflexivity|].
  destruct (ReadRows _ _ _ _) as [rows|]; cbn [bind]; [|discriminate].
  intros [= <-]. reflexivity.
Qed.

Lemma dump_tables_count tables attrs reader opts : forall fns ts,
  dump_tables DecodeType ToLower TypeName tables attrs reader opts fns = Ok ts -> Forall count_ok ts.
Proof.
  induction fns as [|fn r IH]; intros ts H; cbn [dump_tables] in H.
  - injection H as <-. constructor.
  - destruct (table_wanted _ _ _); [|apply IH; exact H].
    destruct (dumpTable _ _ _ _ _ _ _) as [t|] eqn:E; cbn [bind] in H; [|discriminate].
    destruct (dump_tables _ _ _ _ _ _ _ r) as [l|]; cbn [bind] in H; [|discriminate].
    injection H as <-. constructor; [eapply dumpTable_count; eauto|apply IH; reflexivity].
Qed.

Theorem DumpDatabaseFromFiles_count cd ad reader opts d :
  DumpDatabaseFromFiles DecodeType ToLower TypeName range_order cd ad reader opts = Ok d -> Forall count_ok (dd_tables d).
Proof.
  unfold DumpDatabaseFromFiles.
  destruct (ParsePGClass _ _) as [tables|]; cbn [bind]; [|discriminate].
  destruct (ParsePGAttribute _ _ _) as [attrs|]; cbn [bind]; [|discriminate].
  destruct (dump_tables _ _ _ _ _ _ _ _) as [ts|] eqn:E; cbn [bind]; [|discriminate].
  intros [= <-]. cbn [dd_tables]. eapply dump_tables_count; eauto.
Qed.

Lemma dump_dbs_count fs opts : forall dbs r,
  dump_dbs DecodeType ToLower TypeName range_order slack fs opts dbs = Ok r ->
  Forall (fun d => Forall count_ok (dd_tables d)) r.
Proof.
  induction dbs as [|db rest IH]; intros r H; cbn [dump_dbs] in H.
  - injection H as <-. constructor.
  - destruct (has_prefix _ _); [apply IH; exact H|].
    destruct (_ && _); [apply IH; exact H|].
    destruct (len _ =? 0); [apply IH; exact H|].
    destruct (DumpDatabaseFromFiles _ _ _ _ _ _ _ _) as [d|] eqn:E; cbn [bind] in H; [|discriminate].
    destruct (dump_dbs _ _ _ _ _ _ _ rest) as [l|]; cbn [bind] in H; [|discriminate].
    injection H as <-. constructor; [|apply IH; reflexivity].
    cbn [dd_tables]. eapply DumpDatabaseFromFiles_count; eauto.
Qed.

Theorem DumpDataDir_count fs opts r :
  DumpDataDir DecodeType ToLower TypeName range_order slack fs opts = Ok (Some r) ->
  Forall (fun d => Forall count_ok (dd_tables d)) r.
Proof.
  unfold DumpDataDir. destruct (ReadFile _ _ _) as [d|]; [|discriminate].
  destruct (ParsePGDatabase _ _) as [dbs|]; cbn [bind]; [|discriminate].
  destruct (dump_dbs _ _ _ _ _ _ _ _) as [l|] eqn:E; cbn [bind]; [|discriminate].
  intros [= <-]. eapply dump_dbs_count; eauto.
Qed.
End Rowcount.
