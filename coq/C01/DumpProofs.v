(* C01/DumpProofs.v — DumpDatabaseFromFiles and DumpDataDir on the data directory enc_cluster writes. *)
Require Import PG.Base.Bytes PG.Base.GoSlice PG.Base.Value.
Require Import PG.C02.Model PG.C02.Spec PG.C03.Model PG.C03.Pure PG.C03.Spec PG.C03.SpecProofs PG.C03.Main.
Require Import PG.C01.Lib PG.C01.Model PG.C01.Spec PG.C01.HeapProofs PG.C01.CatalogProofs PG.C01.V15Proofs.
Require Import Coq.Sorting.Permutation.

(* ---------- Go maps ---------- *)
Lemma memZ_false x l : ~ In x l -> memZ x l = false.
Proof.
  unfold memZ. induction l as [|y r IH]; intros H; [reflexivity|]. cbn [existsb In] in *.
  replace (x =? y) with false by (assert (y <> x) by tauto; lia). apply IH. tauto.
Qed.
Lemma map_keys_nodup {V} : forall (m : gomap V) seen, NoDup (map fst m) -> (forall k, In k (map fst m) -> ~ In k seen) ->
  map_keys_acc m seen = map fst m.
Proof.
  induction m as [|[k v] r IH]; intros seen N D; [reflexivity|]. cbn [map_keys_acc map fst] in *.
  inversion N as [|? ? Hk Nr]; subst.
  rewrite memZ_false by (apply D; left; reflexivity). f_equal. apply IH; [exact Nr|].
  intros k' Hk' [<-|Hs]; [contradiction|]. apply (D k'); [right; exact Hk'|exact Hs].
Qed.
Lemma map_get_none {V} (m : gomap V) k : ~ In k (map fst m) -> map_get m k = None.
Proof.
  induction m as [|[k0 v0] r IH]; intros H; [reflexivity|]. cbn [map_get map fst In] in *.
  rewrite IH by tauto. replace (k0 =? k) with false by (assert (k0 <> k) by tauto; lia). reflexivity.
Qed.
Lemma map_get_in {V} (m : gomap V) k v : NoDup (map fst m) -> In (k, v) m -> map_get m k = Some v.
Proof.
  induction m as [|[k0 v0] r IH]; intros N H; [contradiction|]. cbn [map_get map fst] in *.
  inversion N as [|? ? Hk Nr]; subst. destruct H as [[= -> ->]|H].
  - rewrite map_get_none by exact Hk. rewrite Z.eqb_refl. reflexivity.
  - rewrite (IH Nr H). reflexivity.
Qed.

Lemma beq_nil f : beq f [] = (blen f =? 0).
Proof. destruct f; [reflexivity|]. bl. pose proof (blen_nonneg f). replace (1 + blen f =? 0) with false by lia. reflexivity. Qed.
Lemma beq_char k : 0 <= k < 256 -> beq [z2b k] s_r = (k =? 114).
Proof.
  intros Hk. destruct (k =? 114) eqn:E.
  - assert (k = 114) by lia. subst. reflexivity.
  - destruct (beq [z2b k] s_r) eqn:B; [|reflexivity]. apply beq_true in B. injection B as B.
    apply (f_equal b2z) in B. rewrite b2z_z2b in B. change (b2z "r") with 114 in B. lia.
Qed.

Lemma first_match_nums : forall n rows i,
  (Z.of_nat (length rows) >=? Z.of_nat n) && first_match rows i n =
  nums_from (map (fun r => toInt (row_get r n_attnum)) rows) (i + 1) n.
Proof.
  induction n as [|n IH]; intros rows i; cbn [first_match nums_from].
  - replace (Z.of_nat (length rows) >=? Z.of_nat 0) with true by lia. reflexivity.
  - destruct rows as [|r rest]; cbn [map length].
    + replace (Z.of_nat 0 >=? Z.of_nat (S n)) with false by lia. reflexivity.
    + replace (Z.of_nat (S (length rest)) >=? Z.of_nat (S n)) with (Z.of_nat (length rest) >=? Z.of_nat n) by lia.
      destruct (toInt (row_get r n_attnum) =? i + 1); cbn [andb]; [apply IH|apply andb_false_r].
Qed.

Section Dump.
Variable DecodeType : gslice -> Z -> res gval.
Variable decode : bytes -> Z -> gval.
Hypothesis DT_ok : forall s oid, DecodeType s oid = Ok (decode (vis s) oid).
Hypothesis DT_cat : agrees_on_catalog decode.
Variable ToLower : bytes -> bytes.
Variable TypeName : Z -> bytes.
Variable range_order : list Z -> list Z.
Hypothesis range_perm : forall l, Permutation l (range_order l).
Variable slack : bytes -> bytes.

(* ---------- pg_attribute ---------- *)
Lemma attr_fits v16 : attr_schema v16 <> [] /\ nums_ok (attr_schema v16) 0.
Proof. destruct v16; (split; [discriminate|cbn; auto 20]). Qed.

Theorem detectAttrSchema_enc v16 hint (h : heap attrow) tl :
  wf_heap (attr_schema v16) (attr_ds v16) wf_attrow h ->
  detect_ok_attrs v16 hint (live_rows h) = true ->
  detectAttrSchema DecodeType {| vis := enc_heap (attr_schema v16) (attr_ds v16) h; tail := tl |} hint = Ok (attr_schema v16).
Proof.
  intros W D. unfold detectAttrSchema, detect_ok_attrs in *.
  destruct (hint >=? 16); [subst v16; reflexivity|].
  destruct (hint >=? 12); [destruct v16; [discriminate|reflexivity]|].
  pose proof (live_rows_ok _ _ _ h W) as F.
  rewrite (ReadRows_enc_heap_gen DecodeType decode DT_ok (attr_schema v16) (attr_ds v16) wf_attrow schemaPGAttrV16) by (try discriminate; exact W).
  cbn [bind]. change 5 with (Z.of_nat 5) at 1. rewrite first_match_nums, map_map. cbn [Z.add].
  destruct v16.
  - unfold first_five_ok in D.
    replace (map _ (live_rows h)) with (map ar_num (live_rows h)); [rewrite D; reflexivity|].
    clear D. induction F as [|a r [Ha Hw] _ IH]; [reflexivity|]. cbn [map]. rewrite IH. f_equal.
    unfold row_read. cbn [attr_schema]. rewrite p_row_fill by (try assumption; cbn; auto 20).
    destruct (attr_row_ok DecodeType decode DT_ok DT_cat true a Hw) as [_ E]. symmetry. exact E.
  - unfold v15_looks_v16 in D.
    replace (map _ (live_rows h)) with (map (fun a => sint16 (le_dec (sub (ar_misc a) 2 4))) (live_rows h)).
    + destruct (nums_from _ 1 5); [discriminate|reflexivity].
    + clear D. induction F as [|a r [Ha Hw] _ IH]; [reflexivity|]. cbn [map]. rewrite IH. f_equal.
      unfold row_read. cbn [attr_schema]. symmetry. apply v15_read_as_v16; assumption.
Qed.

Definition attrs_map v16 (l : list attrow) : gomap (list AttrInfo) :=
  map (fun kv : Z * list AttrInfo => (fst kv, isort ai_num (snd kv)))
      (fold_left add_attr_row (map (fun a => expected_row decode (attr_schema v16) (attr_ds v16 a)) l) []).

Theorem ParsePGAttribute_enc v16 hint (h : heap attrow) tl :
  wf_heap (attr_schema v16) (attr_ds v16) wf_attrow h ->
  detect_ok_attrs v16 hint (live_rows h) = true ->
  ParsePGAttribute DecodeType {| vis := enc_heap (attr_schema v16) (attr_ds v16) h; tail := tl |} hint =
  Ok (attrs_map v16 (live_rows h)).
Proof.
  intros W D. unfold ParsePGAttribute. rewrite detectAttrSchema_enc by assumption. cbn [bind].
  destruct (attr_fits v16) as [Hne Hn].
  rewrite (ReadRows_enc_heap DecodeType decode DT_ok (attr_schema v16) (attr_ds v16) wf_attrow h tl Hne Hn W).
  reflexivity.
Qed.

(* ---------- one table ---------- *)
(* the FileReader hands out the relation files of directory [d] (with any spare capacity) *)
Definition reader_for (d : dbdir) (rd : Z -> option gslice) : Prop :=
  forall fn, fn <> 1259 -> fn <> 1249 ->
    match find_file d fn with
    | None => rd fn = None
    | Some rf => exists tl, rd fn = Some {| vis := enc_heap (rf_cols rf) idds (rf_heap rf); tail := tl |}
    end.

Lemma dumpTable_enc v16 d rd o k :
  wf_dir v16 d -> reader_for d rd -> In k (live_rows (dir_class d)) -> dumpable k = true ->
  dumpTable DecodeType TypeName (cr_filenode k) (info_of k)
            (map attr_info (rel_atts (live_rows (dir_attr d)) (cr_oid k))) (Some rd) o =
  Ok (expected_table decode TypeName d o k).
Proof.
  intros (Wc & Wa & _ & _ & Hrel) Hrd Hin Hdump.
  destruct (Hrel k Hin Hdump) as (N1 & N2 & Hfile).
  unfold dumpTable, expected_table. set (atts := rel_atts (live_rows (dir_attr d)) (cr_oid k)) in *.
  assert (EC : map (colinfo_of_attr TypeName) (map attr_info atts) =
               map (fun a => {| ci_name := ar_name a; ci_type := TypeName (ar_typid a); ci_typid := ar_typid a |}) atts)
    by (rewrite map_map; reflexivity).
  assert (ECol : map column_of_attr (map attr_info atts) = map col_of_att atts) by (rewrite map_map; reflexivity).
  rewrite EC. cbn [ti_oid ti_name ti_kind info_of].
  destruct (o_listonly o); [reflexivity|].
  specialize (Hrd (cr_filenode k) N1 N2).
  destruct (find_file d (cr_filenode k)) as [rf|] eqn:Ef.
  - destruct Hrd as [tl ->]. destruct (Hfile rf eq_refl) as (Hc & Hne & Hn & Wh).
    unfold rel_cols in Hc, Hne, Hn, Wh. fold atts in Hc, Hne, Hn, Wh.
    unfold len. cbn [vis]. rewrite Hc. rewrite (enc_heap_len (map col_of_att atts) idds (fun _ => True) (rf_heap rf) Wh).
    destruct (rf_heap rf) as [|b hr] eqn:Eh.
    + reflexivity.
    + replace (8192 * Z.of_nat (length (b :: hr)) =? 0) with false by (cbn [length]; lia).
      rewrite ECol.
      rewrite (ReadRows_enc_heap DecodeType decode DT_ok (map col_of_att atts) idds (fun _ => True) (b :: hr) tl Hne Hn Wh).
      cbn [bind]. unfold idds. reflexivity.
  - rewrite Hrd. reflexivity.
Qed.

(* ---------- all tables of a database ---------- *)
Lemma table_wanted_selected o k : cr_filenode k > 0 -> 0 <= cr_kind k < 256 ->
  table_wanted ToLower o (info_of k) = table_selected ToLower o k.
Proof.
  intros Hf Hk. unfold table_wanted, table_selected, dumpable. cbn [ti_kind ti_name info_of].
  rewrite beq_char by exact Hk. change (beq [z2b (cr_kind k)] []) with false. rewrite beq_nil.
  replace (cr_filenode k >? 0) with true by lia.
  destruct (cr_kind k =? 114), (o_skipsys o && has_prefix (cr_name k) s_pg_), (blen (o_tablefilter o) =? 0),
    (contains (ToLower (cr_name k)) (ToLower (o_tablefilter o))); reflexivity.
Qed.

Definition class_map (l : list classrow) : gomap TableInfo := flat_map class_entry l.
Definition stored (l : list classrow) : list classrow := filter (fun k => cr_filenode k >? 0) l.
Lemma class_map_keys l : map fst (class_map l) = map cr_filenode (stored l).
Proof.
  unfold class_map, stored. induction l as [|k r IH]; [reflexivity|]. cbn [flat_map filter]. unfold class_entry at 1.
  destruct (cr_filenode k >? 0); cbn [app map fst]; rewrite IH; reflexivity.
Qed.
Lemma class_map_in l k : In k l -> cr_filenode k > 0 -> In (cr_filenode k, info_of k) (class_map l).
Proof.
  intros Hin Hf. unfold class_map. apply in_flat_map. exists k. split; [exact Hin|].
  unfold class_entry. replace (cr_filenode k >? 0) with true by lia. left. reflexivity.
Qed.

Lemma selected_stored o l : filter (table_selected ToLower o) (stored l) = filter (table_selected ToLower o) l.
Proof.
  unfold stored. induction l as [|k r IH]; [reflexivity|]. cbn [filter].
  destruct (cr_filenode k >? 0) eqn:E; cbn [filter]; rewrite IH; [reflexivity|].
  unfold table_selected, dumpable. rewrite E. reflexivity.
Qed.

Lemma dump_tables_enc v16 d rd o :
  wf_dir v16 d -> reader_for d rd ->
  forall L, (forall k, In k L -> In k (live_rows (dir_class d)) /\ cr_filenode k > 0) ->
  dump_tables DecodeType ToLower TypeName (class_map (live_rows (dir_class d))) (attrs_map v16 (live_rows (dir_attr d)))
              (Some rd) o (map cr_filenode L) =
  Ok (map (expected_table decode TypeName d o) (filter (table_selected ToLower o) L)).
Proof.
  intros W Hrd. pose proof W as (Wc & Wa & Nf & _ & _).
  pose proof (live_rows_ok _ _ _ _ Wc) as Fc. pose proof (live_rows_ok _ _ _ _ Wa) as Fa.
  assert (Fa' : Forall wf_attrow (live_rows (dir_attr d))) by (eapply Forall_impl; [|exact Fa]; intros a [_ H]; exact H).
  rewrite Forall_forall in Fc.
  induction L as [|k r IH]; intros HL; [reflexivity|]. cbn [map dump_tables filter].
  destruct (HL k (or_introl eq_refl)) as [Hin Hf]. destruct (Fc k Hin) as [_ (Ho & _ & _ & Hk & _)].
  rewrite (map_get_in _ (cr_filenode k) (info_of k)) by (try (rewrite class_map_keys; exact Nf); apply class_map_in; assumption).
  rewrite table_wanted_selected by assumption.
  assert (IH' := IH (fun k' Hk' => HL k' (or_intror Hk'))).
  destruct (table_selected ToLower o k) eqn:Es; [|exact IH'].
  cbn [ti_oid info_of].
  assert (EA : attrs_get (attrs_map v16 (live_rows (dir_attr d))) (cr_oid k) =
               map attr_info (rel_atts (live_rows (dir_attr d)) (cr_oid k)))
    by (unfold attrs_map; apply (attrs_of_rows DecodeType decode DT_ok DT_cat v16 _ (cr_oid k) Fa'); lia).
  rewrite EA.
  rewrite (dumpTable_enc v16 d rd o k W Hrd Hin) by (unfold table_selected in Es; destruct (dumpable k); [reflexivity|discriminate]).
  cbn [bind]. rewrite IH'. cbn [bind map]. reflexivity.
Qed.

Theorem DumpDatabaseFromFiles_enc v16 d rd opts ctl atl :
  wf_dir v16 d -> reader_for d rd ->
  detect_ok_attrs v16 (o_pgversion (eff_opts opts)) (live_rows (dir_attr d)) = true ->
  DumpDatabaseFromFiles DecodeType ToLower TypeName range_order
    {| vis := enc_heap schemaPGClass class_ds (dir_class d); tail := ctl |}
    {| vis := enc_heap (attr_schema v16) (attr_ds v16) (dir_attr d); tail := atl |} (Some rd) opts =
  Ok {| dd_oid := 0; dd_name := []; dd_tables := expected_tables decode ToLower TypeName d (eff_opts opts) |}.
Proof.
  intros W Hrd D. pose proof W as (Wc & Wa & Nf & _ & _). unfold DumpDatabaseFromFiles.
  replace (withDefaults opts) with (eff_opts opts) by (destruct opts; reflexivity).
  rewrite (ParsePGClass_enc DecodeType decode DT_ok DT_cat _ ctl Wc). cbn [bind].
  rewrite (ParsePGAttribute_enc v16 _ _ atl Wa D). cbn [bind].
  fold (class_map (live_rows (dir_class d))).
  assert (N : NoDup (map fst (class_map (live_rows (dir_class d))))) by (rewrite class_map_keys; exact Nf).
  unfold map_keys. rewrite map_keys_nodup by (auto; intros k _ []).
  change (isort (fun x : Z => x)) with (isort idz). rewrite <- (isort_perm _ _ (range_perm _)).
  rewrite class_map_keys. rewrite (isort_map cr_filenode idz cr_filenode) by reflexivity.
  rewrite (dump_tables_enc v16 d rd (eff_opts opts) W Hrd).
  - cbn [bind]. unfold expected_tables. do 3 f_equal.
    rewrite filter_isort. f_equal. apply selected_stored.
  - intros k Hk. apply isort_in in Hk. unfold stored in Hk. apply filter_In in Hk. destruct Hk as [H1 H2]. split; [exact H1|lia].
Qed.

(* ---------- the data directory ---------- *)
Lemma find_dir_in c oid d : find_dir c oid = Some d -> In d (cl_dirs c).
Proof. unfold find_dir. intros H. apply find_some in H. tauto. Qed.

Lemma reader_of_cluster c oid d : find_dir c oid = Some d ->
  reader_for d (fun fn => ReadFile slack (enc_cluster c) (PBase oid fn)).
Proof.
  intros Hd fn N1 N2. unfold ReadFile, enc_cluster. rewrite Hd.
  replace (fn =? 1259) with false by lia. replace (fn =? 1249) with false by lia.
  destruct (find_file d fn) as [rf|]; [eexists; reflexivity|reflexivity].
Qed.

Lemma read_class c oid d : find_dir c oid = Some d ->
  ReadFile slack (enc_cluster c) (PBase oid 1259) =
  Some {| vis := enc_heap schemaPGClass class_ds (dir_class d); tail := slack (enc_heap schemaPGClass class_ds (dir_class d)) |}.
Proof. intros H. unfold ReadFile, enc_cluster. rewrite H. reflexivity. Qed.
Lemma read_attr c oid d : find_dir c oid = Some d ->
  ReadFile slack (enc_cluster c) (PBase oid 1249) =
  Some {| vis := enc_heap (attr_schema (cl_v16 c)) (attr_ds (cl_v16 c)) (dir_attr d);
          tail := slack (enc_heap (attr_schema (cl_v16 c)) (attr_ds (cl_v16 c)) (dir_attr d)) |}.
Proof. intros H. unfold ReadFile, enc_cluster. rewrite H. reflexivity. Qed.
Lemma read_nodir c oid f : find_dir c oid = None -> ReadFile slack (enc_cluster c) (PBase oid f) = None.
Proof. intros H. unfold ReadFile, enc_cluster. rewrite H. reflexivity. Qed.

Lemma dump_db_one c opts r rest :
  Forall (wf_dir (cl_v16 c)) (cl_dirs c) -> detect_ok c opts ->
  dump_dbs DecodeType ToLower TypeName range_order slack (enc_cluster c) (eff_opts opts)
           (map (fun d => {| db_oid := dr_oid d; db_name := dr_name d |}) rest) =
  Ok (flat_map (expected_db decode ToLower TypeName c (eff_opts opts)) rest) ->
  (let classData := match ReadFile slack (enc_cluster c) (PBase (dr_oid r) 1259) with Some d => d | None => nil_slice end in
   let attrData := match ReadFile slack (enc_cluster c) (PBase (dr_oid r) 1249) with Some d => d | None => nil_slice end in
   if len classData =? 0
   then dump_dbs DecodeType ToLower TypeName range_order slack (enc_cluster c) (eff_opts opts)
                 (map (fun d => {| db_oid := dr_oid d; db_name := dr_name d |}) rest)
   else
     d <- DumpDatabaseFromFiles DecodeType ToLower TypeName range_order classData attrData
            (Some (fun fn => ReadFile slack (enc_cluster c) (PBase (dr_oid r) fn))) (Some (eff_opts opts)) ;;
     r0 <- dump_dbs DecodeType ToLower TypeName range_order slack (enc_cluster c) (eff_opts opts)
                    (map (fun d => {| db_oid := dr_oid d; db_name := dr_name d |}) rest) ;;
     Ok ({| dd_oid := dr_oid r; dd_name := dr_name r; dd_tables := dd_tables d |} :: r0)) =
  Ok (match find_dir c (dr_oid r) with
      | None => []
      | Some d => match dir_class d with
                  | [] => []
                  | _ => [{| dd_oid := dr_oid r; dd_name := dr_name r;
                             dd_tables := expected_tables decode ToLower TypeName d (eff_opts opts) |}]
                  end
      end ++ flat_map (expected_db decode ToLower TypeName c (eff_opts opts)) rest).
Proof.
  intros Wd D IH. cbv zeta.
  destruct (find_dir c (dr_oid r)) as [d|] eqn:Ed.
  - rewrite !(read_class c _ d Ed), !(read_attr c _ d Ed).
    pose proof (find_dir_in _ _ _ Ed) as Hin.
    assert (W : wf_dir (cl_v16 c) d) by (rewrite Forall_forall in Wd; auto).
    pose proof W as (Wc & _).
    unfold len at 1. cbn [vis]. rewrite (enc_heap_len _ _ _ _ Wc).
    destruct (dir_class d) as [|b hr] eqn:Eh; [exact IH|].
    replace (8192 * Z.of_nat (length (b :: hr)) =? 0) with false by (cbn [length]; lia).
    rewrite <- Eh.
    replace (Some (eff_opts opts)) with (Some (eff_opts (Some (eff_opts opts)))) by reflexivity.
    rewrite (DumpDatabaseFromFiles_enc (cl_v16 c) d _ (Some (eff_opts opts)) _ _ W (reader_of_cluster c _ d Ed))
      by (apply (D d Hin)).
    cbn [bind dd_tables]. rewrite IH. cbn [bind app]. reflexivity.
  - rewrite !(read_nodir c _ _ Ed). exact IH.
Qed.

Lemma dump_dbs_enc c opts :
  Forall (wf_dir (cl_v16 c)) (cl_dirs c) -> detect_ok c opts ->
  forall rows,
  dump_dbs DecodeType ToLower TypeName range_order slack (enc_cluster c) (eff_opts opts)
           (map (fun d => {| db_oid := dr_oid d; db_name := dr_name d |}) rows) =
  Ok (flat_map (expected_db decode ToLower TypeName c (eff_opts opts)) rows).
Proof.
  intros Wd D. induction rows as [|r rest IH]; [reflexivity|]. cbn [map dump_dbs flat_map db_name db_oid].
  pose proof (dump_db_one c opts r rest Wd D IH) as One. cbv zeta in One.
  unfold expected_db at 1. unfold db_selected. rewrite beq_nil.
  destruct (has_prefix (dr_name r) s_template); cbn [negb andb]; [exact IH|].
  destruct (blen (o_dbfilter (eff_opts opts)) =? 0) eqn:Ef; cbn [negb andb orb]; [exact One|].
  destruct (beq (dr_name r) (o_dbfilter (eff_opts opts))) eqn:Eb; cbn [negb]; [exact One|exact IH].
Qed.

Theorem DumpDataDir_enc c opts :
  wf_cluster c -> detect_ok c opts ->
  DumpDataDir DecodeType ToLower TypeName range_order slack (enc_cluster c) opts =
  Ok (Some (expected_dump decode ToLower TypeName c opts)).
Proof.
  intros [Wp Wd] D. unfold DumpDataDir, ReadFile. cbn [enc_cluster].
  rewrite (ParsePGDatabase_enc DecodeType decode DT_ok DT_cat _ _ Wp). cbn [bind].
  replace (withDefaults opts) with (eff_opts opts) by (destruct opts; reflexivity).
  rewrite (dump_dbs_enc c opts Wd D). reflexivity.
Qed.

End Dump.
