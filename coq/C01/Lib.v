(* C01/Lib.v — small generic helpers shared by the C01 model and spec: Go string predicates on byte strings,
   insertion sort on an integer key, the result/option record types of pgdump.go / catalog.go.
   (Would belong in a shared Base file; kept here because Base/ is not ours to edit.) *)
Require Import PG.Base.Bytes PG.Base.GoSlice PG.Base.Value.

(* ---------- Go strings (arbitrary bytes) ---------- *)
Definition beq (a b : bytes) : bool := if list_eq_dec Byte.byte_eq_dec a b then true else false.
Lemma beq_true a b : beq a b = true <-> a = b.
Proof. unfold beq. destruct (list_eq_dec _ a b); split; auto; discriminate. Qed.
Lemma beq_refl a : beq a a = true. Proof. apply beq_true. reflexivity. Qed.

(* strings.HasPrefix *)
Fixpoint has_prefix (s p : bytes) : bool :=
  match p, s with
  | [], _ => true
  | _ :: _, [] => false
  | y :: p', x :: s' => if Byte.byte_eq_dec x y then has_prefix s' p' else false
  end.
(* strings.Contains: some suffix of s starts with sub *)
Fixpoint contains (s sub : bytes) : bool :=
  has_prefix s sub || match s with [] => false | _ :: r => contains r sub end.

(* ASCII lower-casing of one byte ('A'..'Z' -> 'a'..'z'), what strings.ToLower does on pure-ASCII input *)
Definition lower_byte (b : byte) : byte := if (65 <=? b2z b) && (b2z b <=? 90) then z2b (b2z b + 32) else b.
Definition is_ascii (s : bytes) : bool := forallb (fun b => b2z b <? 128) s.

(* ---------- insertion sort on an integer key (stable) ---------- *)
Section Sort.
Context {A : Type} (key : A -> Z).
Fixpoint insert_by (a : A) (l : list A) : list A :=
  match l with
  | [] => [a]
  | x :: r => if key a <=? key x then a :: x :: r else x :: insert_by a r
  end.
Definition isort (l : list A) : list A := fold_right (fun a acc => insert_by a acc) [] l.
End Sort.
(* [isort (a :: l) = insert_by a (isort l)] and [a] goes before the first element whose key is >= its own, so equal
   keys keep their input order (stable), like Go's insertion sort for short slices.  Every use below has distinct keys. *)

(* ---------- types of pgdump.go / catalog.go ---------- *)
Record Options := { o_dbfilter : bytes; o_tablefilter : bytes; o_listonly : bool; o_skipsys : bool; o_pgversion : Z }.
Record DatabaseInfo := { db_oid : Z; db_name : bytes }.
Record TableInfo := { ti_oid : Z; ti_filenode : Z; ti_name : bytes; ti_kind : bytes }.
Record AttrInfo := { ai_name : bytes; ai_typid : Z; ai_num : Z; ai_len : Z; ai_align : Z }.
Record ColumnInfo := { ci_name : bytes; ci_type : bytes; ci_typid : Z }.
Record TableDump := { td_oid : Z; td_name : bytes; td_filenode : Z; td_kind : bytes;
                      td_columns : list ColumnInfo; td_rows : list row; td_rowcount : Z }.
Record DatabaseDump := { dd_oid : Z; dd_name : bytes; dd_tables : list TableDump }.

(* the files DumpDataDir opens below <dataDir>:  global/1262  and  base/<db>/<file>
   (strconv.FormatUint is injective, so the two numbers identify the path) *)
Inductive path := PGlobal1262 | PBase (db file : Z).

(* string constants *)
Definition s_template : bytes := ["t"; "e"; "m"; "p"; "l"; "a"; "t"; "e"]%byte.
Definition s_pg_ : bytes := ["p"; "g"; "_"]%byte.
Definition s_r : bytes := ["r"]%byte.
