(* C01/Check.v — a decidable checker for wf_cluster (sound: C01/CheckProofs.v).  Used by the generator to make sure
   that an expectation S is only ever claimed for a well-formed cluster, and by the examples/witnesses. *)
Require Import PG.Base.Bytes PG.Base.GoSlice PG.Base.Value.
Require Import PG.C02.Spec PG.C03.Model PG.C03.Spec PG.C03.Main PG.C09.Spec.
Require Import PG.C01.Lib PG.C01.Model PG.C01.Spec.

Definition nul_free_b (bs : bytes) : bool := forallb (fun b => negb (b2z b =? 0)) bs.
Definition wf_name_b (n : bytes) : bool := (1 <=? blen n) && (blen n <=? 63) && nul_free_b n.
Definition wf_align_b (a : Z) : bool := (a =? 1) || (a =? 2) || (a =? 4) || (a =? 8).
Definition align_known_b (c : Column) : bool := memZ (c_align c) [99; 115; 105; 100] || memZ (c_typid c) fallback_ok_oids.
Definition fits_b (c : Column) (d : datum) : bool :=
  wf_align_b (att_align c) && align_known_b c &&
  match d with
  | DNull => true
  | DFixed bs => (c_len c >? 0) && (blen bs =? c_len c)
  | DShort bs => (c_len c =? -1) && (blen bs + 1 <=? 127)
  | DLong bs => (c_len c =? -1) && (blen bs + 4 <? 2 ^ 30)
  | DLongC bs => (c_len c =? -1) && (0 <? blen bs) && (blen bs + 4 <? 2 ^ 30)
  | DExternal body => (c_len c =? -1) && (blen body =? 16)
  | DCStr bs => (c_len c =? -2) && (att_align c =? 1) && nul_free_b bs
  end.
Fixpoint fits_prefix_b (cols : list Column) (ds : list datum) : bool :=
  match ds with
  | [] => true
  | d :: ds' => match cols with [] => false | c :: cs => fits_b c d && fits_prefix_b cs ds' end
  end.
Fixpoint nums_ok_b (cols : list Column) (i : Z) : bool :=
  match cols with [] => true | c :: cs => ((c_num c =? 0) || (c_num c =? i + 1)) && nums_ok_b cs (i + 1) end.

Definition wf_vhdr_b (h : vhdr) (ds : list datum) : bool :=
  (blen (vh_head h) =? 18) && (0 <=? vh_flags2 h) && (vh_flags2 h <? 32) && (0 <=? vh_mask_hi h) && (vh_mask_hi h <? 32768) &&
  (0 <=? vh_extra h) && (Z.of_nat (length ds) <? 2048) &&
  (maxalign (23 + (Z.of_nat (length ds) + 7) / 8) + 8 * vh_extra h <=? 255).
Definition wf_tup_b (t : tup) : bool :=
  (blen (tp_head t) =? 18) && (0 <=? tp_natts t) && (tp_natts t <? 2048) && (0 <=? tp_flags2 t) && (tp_flags2 t <? 32) &&
  (0 <=? tp_infomask t) && (tp_infomask t <? 65536) && (23 <=? tp_hoff t) && (tp_hoff t <=? 255) &&
  (blen (tp_mid t) =? tp_hoff t - 23) && (negb (hasnull t) || (bitmap_len t <=? blen (tp_mid t))).

Section HeapCheck.
Context {A : Type}.
Variable cols : list Column.
Variable to_ds : A -> list datum.
Variable payload_b : A -> bool.
Definition wf_version_b (v : version A) : bool :=
  match v with
  | VRow h a => wf_vhdr_b h (to_ds a) && fits_prefix_b cols (to_ds a) && payload_b a
  | VOld t => wf_tup_b t && negb (live (tp_infomask t))
  | VStub l => (0 <=? lp_off l) && (lp_off l <? 32768) && (0 <=? lp_len l) && (lp_len l <? 32768) &&
               ((lp_flags l =? 0) || (lp_flags l =? 2) || (lp_flags l =? 3))
  end.
Definition wf_hpage_b (p : hpage A) : bool :=
  (blen (hp_lsn p) =? 12) && (blen (hp_prune p) =? 4) && forallb wf_version_b (hp_items p) && page_fits cols to_ds p.
Definition wf_hblock_b (b : hblock A) : bool := match b with HPage p => wf_hpage_b p | HZero => true end.
Definition wf_heap_b (h : heap A) : bool := forallb wf_hblock_b h.
End HeapCheck.

Definition wf_dbrow_b (d : dbrow) : bool := (0 <? dr_oid d) && (dr_oid d <? 2 ^ 32) && wf_name_b (dr_name d).
Definition wf_classrow_b (k : classrow) : bool :=
  (0 <? cr_oid k) && (cr_oid k <? 2 ^ 32) && (0 <=? cr_filenode k) && (cr_filenode k <? 2 ^ 32) && wf_name_b (cr_name k) &&
  (0 <=? cr_kind k) && (cr_kind k <? 256) && (blen (cr_misc k) =? 43).
Definition wf_attrow_b (a : attrow) : bool :=
  (0 <=? ar_relid a) && (ar_relid a <? 2 ^ 32) && wf_name_b (ar_name a) && (0 <=? ar_typid a) && (ar_typid a <? 2 ^ 32) &&
  (- 32768 <=? ar_len a) && (ar_len a <? 32768) && (- 32768 <=? ar_num a) && (ar_num a <? 32768) &&
  (0 <=? ar_align a) && (ar_align a <? 256) && (blen (ar_misc a) =? 11).

Fixpoint nodup_b {A} (eqb : A -> A -> bool) (l : list A) : bool :=
  match l with [] => true | x :: r => negb (existsb (eqb x) r) && nodup_b eqb r end.
Definition pair_eqb (a b : Z * Z) : bool := (fst a =? fst b) && (snd a =? snd b).
Definition col_eqb (a b : Column) : bool :=
  beq (c_name a) (c_name b) && (c_typid a =? c_typid b) && (c_len a =? c_len b) && (c_num a =? c_num b) && (c_align a =? c_align b).
Fixpoint cols_eqb (a b : list Column) : bool :=
  match a, b with [], [] => true | x :: a', y :: b' => col_eqb x y && cols_eqb a' b' | _, _ => false end.

Definition wf_rel_b (strict : bool) (d : dbdir) (k : classrow) : bool :=
  if dumpable k then
    negb (cr_filenode k =? 1259) && negb (cr_filenode k =? 1249) &&
    match find_file d (cr_filenode k) with
    | None => true
    | Some rf => let cols := rel_cols (live_rows (dir_attr d)) (cr_oid k) in
                 cols_eqb (rf_cols rf) cols && (negb strict || negb (Z.of_nat (length cols) =? 0)) && nums_ok_b cols 0 &&
                 wf_heap_b cols idds (fun _ => true) (rf_heap rf)
    end
  else true.
Definition wf_dir_b (strict : bool) (v16 : bool) (d : dbdir) : bool :=
  wf_heap_b schemaPGClass class_ds wf_classrow_b (dir_class d) &&
  wf_heap_b (attr_schema v16) (attr_ds v16) wf_attrow_b (dir_attr d) &&
  nodup_b Z.eqb (map cr_filenode (filter (fun k => cr_filenode k >? 0) (live_rows (dir_class d)))) &&
  nodup_b pair_eqb (map (fun a => (ar_relid a, ar_num a)) (live_rows (dir_attr d))) &&
  forallb (wf_rel_b strict d) (live_rows (dir_class d)).
Definition wf_cluster_gen_b (strict : bool) (c : cluster) : bool :=
  wf_heap_b schemaPGDatabase db_ds wf_dbrow_b (cl_pgdb c) && forallb (wf_dir_b strict (cl_v16 c)) (cl_dirs c).
Definition wf_cluster_b : cluster -> bool := wf_cluster_gen_b true.
(* the same without "at least one column" (the clusters of known finding C01-zero-column-rows) *)
Definition wf_cluster_relaxed_b : cluster -> bool := wf_cluster_gen_b false.

(* decidable form of detect_ok, and the two known-finding classes *)
Definition detect_ok_b (c : cluster) (opts : option Options) : bool :=
  forallb (fun d => detect_ok_attrs (cl_v16 c) (o_pgversion (eff_opts opts)) (live_rows (dir_attr d))) (cl_dirs c).
Definition kf_detect (c : cluster) (opts : option Options) : bool := negb (detect_ok_b c opts).
(* an ordinary table with a file, live rows and no columns *)
Definition kf_zero_columns (c : cluster) : bool :=
  existsb (fun d => existsb (fun k => dumpable k &&
                       match find_file d (cr_filenode k) with
                       | None => false
                       | Some rf => (Z.of_nat (length (rel_cols (live_rows (dir_attr d)) (cr_oid k))) =? 0) &&
                                    negb (Z.of_nat (length (live_rows (rf_heap rf))) =? 0)
                       end) (live_rows (dir_class d))) (cl_dirs c).
