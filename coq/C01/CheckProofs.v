(* C01/CheckProofs.v — soundness of the decidable well-formedness checker. *)
Require Import PG.Base.Bytes PG.Base.GoSlice PG.Base.Value.
Require Import PG.C02.Spec PG.C03.Model PG.C03.Spec PG.C03.SpecProofs PG.C03.Main PG.C09.Spec.
Require Import PG.C01.Lib PG.C01.Model PG.C01.Spec PG.C01.Check.

Ltac split_andb :=
  repeat match goal with
         | H : _ && _ = true |- _ => apply andb_prop in H; destruct H
         end.

Lemma nul_free_sound bs : nul_free_b bs = true -> nul_free bs.
Proof.
  unfold nul_free_b, nul_free. intros H. apply Forall_forall. intros b Hb.
  rewrite forallb_forall in H. specialize (H b Hb). lia.
Qed.
Lemma wf_name_sound n : wf_name_b n = true -> wf_name n.
Proof. unfold wf_name_b, wf_name. intros H. split_andb. split; [lia|apply nul_free_sound; assumption]. Qed.
Lemma memZ_in x l : memZ x l = true -> In x l.
Proof. unfold memZ. intros H. apply existsb_exists in H. destruct H as (y & Hy & E). assert (x = y) by lia. subst. exact Hy. Qed.

Lemma fits_sound c d : fits_b c d = true -> fits c d.
Proof.
  unfold fits_b, fits. intros H. split_andb. split; [|split].
  - unfold wf_align_b in *. unfold wf_align. lia.
  - unfold align_known_b in *. unfold align_known.
    match goal with H : _ || _ = true |- _ => apply orb_prop in H; destruct H as [H|H]; apply memZ_in in H; auto end.
  - destruct d; split_andb; repeat split; try lia; try (apply nul_free_sound; assumption).
Qed.
Lemma fits_prefix_sound : forall cols ds, fits_prefix_b cols ds = true -> fits_prefix cols ds.
Proof.
  intros cols ds. revert cols. induction ds as [|d ds IH]; intros cols H; [constructor|].
  destruct cols as [|c cs]; cbn [fits_prefix_b] in H; [discriminate|]. split_andb.
  constructor; [apply fits_sound; assumption|apply IH; assumption].
Qed.
Lemma nums_ok_sound : forall cols i, nums_ok_b cols i = true -> nums_ok cols i.
Proof.
  induction cols as [|c cs IH]; intros i H; [exact I|]. cbn [nums_ok_b nums_ok] in *. split_andb.
  split; [lia|apply IH; assumption].
Qed.
Lemma wf_tup_sound t : wf_tup_b t = true -> wf_tup t.
Proof.
  unfold wf_tup_b, wf_tup. intros H. split_andb. repeat split; try lia.
  intros Hn. match goal with H : negb _ || _ = true |- _ => rewrite Hn in H; cbn in H end. lia.
Qed.

Section HeapSound.
Context {A : Type}.
Variable cols : list Column.
Variable to_ds : A -> list datum.
Variable payload_b : A -> bool.
Variable payload_ok : A -> Prop.
Hypothesis payload_sound : forall a, payload_b a = true -> payload_ok a.

Lemma wf_version_sound v : wf_version_b cols to_ds payload_b v = true -> wf_version cols to_ds payload_ok v.
Proof.
  destruct v as [h a|t|l]; cbn [wf_version_b wf_version]; intros H; split_andb.
  - split; [|split; [apply fits_prefix_sound; assumption|apply payload_sound; assumption]].
    unfold wf_vhdr_b in *. split_andb. unfold wf_vhdr. repeat split; lia.
  - split; [apply wf_tup_sound; assumption|]. destruct (live (tp_infomask t)); [discriminate|reflexivity].
  - repeat split; try lia.
Qed.
Lemma wf_heap_sound h : wf_heap_b cols to_ds payload_b h = true -> wf_heap cols to_ds payload_ok h.
Proof.
  unfold wf_heap_b, wf_heap. intros H. apply Forall_forall. intros b Hb. rewrite forallb_forall in H. specialize (H b Hb).
  destruct b as [p|]; [|exact I]. cbn [wf_hblock_b wf_hblock] in *. unfold wf_hpage_b in H. split_andb.
  unfold wf_hpage. repeat split; try lia; try assumption.
  apply Forall_forall. intros v Hv. apply wf_version_sound.
  match goal with H : forallb _ _ = true |- _ => rewrite forallb_forall in H; apply H; exact Hv end.
Qed.
End HeapSound.

Lemma wf_dbrow_sound d : wf_dbrow_b d = true -> wf_dbrow d.
Proof. unfold wf_dbrow_b, wf_dbrow. intros H. split_andb. split; [lia|apply wf_name_sound; assumption]. Qed.
Lemma wf_classrow_sound k : wf_classrow_b k = true -> wf_classrow k.
Proof. unfold wf_classrow_b, wf_classrow. intros H. split_andb. repeat split; try lia; apply wf_name_sound; assumption. Qed.
Lemma wf_attrow_sound a : wf_attrow_b a = true -> wf_attrow a.
Proof. unfold wf_attrow_b, wf_attrow. intros H. split_andb. repeat split; try lia; apply wf_name_sound; assumption. Qed.

Lemma nodup_sound {A} (eqb : A -> A -> bool) (eqb_refl : forall x, eqb x x = true) :
  forall l, nodup_b eqb l = true -> NoDup l.
Proof.
  induction l as [|x r IH]; intros H; [constructor|]. cbn [nodup_b] in H. split_andb.
  constructor; [|apply IH; assumption]. intros Hin.
  match goal with H : negb (existsb _ _) = true |- _ => apply negb_true_iff in H; rewrite <- not_true_iff_false in H; apply H end.
  apply existsb_exists. exists x. split; [exact Hin|apply eqb_refl].
Qed.
Lemma cols_eqb_sound : forall a b, cols_eqb a b = true -> a = b.
Proof.
  induction a as [|x a IH]; intros [|y b] H; cbn [cols_eqb] in H; try discriminate; [reflexivity|]. split_andb.
  f_equal; [|apply IH; assumption]. unfold col_eqb in *. split_andb.
  destruct x, y; cbn in *.
  match goal with H : beq _ _ = true |- _ => apply beq_true in H end. f_equal; lia || assumption.
Qed.

Lemma wf_dir_sound v16 d : wf_dir_b true v16 d = true -> wf_dir v16 d.
Proof.
  unfold wf_dir_b. intros H.
  apply andb_prop in H. destruct H as [H Hrel]. apply andb_prop in H. destruct H as [H Hnd2].
  apply andb_prop in H. destruct H as [H Hnd1]. apply andb_prop in H. destruct H as [Hc Ha].
  unfold wf_dir. split; [|split; [|split; [|split]]].
  - eapply wf_heap_sound; [apply wf_classrow_sound|assumption].
  - eapply wf_heap_sound; [apply wf_attrow_sound|assumption].
  - eapply nodup_sound; [apply Z.eqb_refl|assumption].
  - eapply nodup_sound; [|eassumption]. intros [a b]. unfold pair_eqb. cbn [fst snd]. rewrite !Z.eqb_refl. reflexivity.
  - intros k Hk Hdump. rewrite forallb_forall in Hrel. specialize (Hrel k Hk). unfold wf_rel_b in Hrel. rewrite Hdump in Hrel.
    apply andb_prop in Hrel. destruct Hrel as [Hrel Hfile]. apply andb_prop in Hrel. destruct Hrel as [N1 N2].
    split; [lia|]. split; [lia|]. intros rf Hrf. rewrite Hrf in Hfile. cbv zeta in *.
    apply andb_prop in Hfile. destruct Hfile as [Hfile Hh]. apply andb_prop in Hfile. destruct Hfile as [Hfile Hn].
    apply andb_prop in Hfile. destruct Hfile as [He Hne]. cbn [negb orb] in Hne.
    split; [apply cols_eqb_sound; exact He|]. split; [|split].
    + intros E. rewrite E in Hne. cbn in Hne. discriminate.
    + apply nums_ok_sound. exact Hn.
    + eapply wf_heap_sound; [|exact Hh]. auto.
Qed.

Theorem wf_cluster_b_sound c : wf_cluster_b c = true -> wf_cluster c.
Proof.
  unfold wf_cluster_b, wf_cluster_gen_b, wf_cluster. intros H. split_andb. split.
  - eapply wf_heap_sound; [apply wf_dbrow_sound|assumption].
  - apply Forall_forall. intros d Hd. apply wf_dir_sound.
    match goal with H : forallb _ _ = true |- _ => rewrite forallb_forall in H; apply H; exact Hd end.
Qed.

Theorem detect_ok_b_sound c opts : detect_ok_b c opts = true -> detect_ok c opts.
Proof. unfold detect_ok_b, detect_ok. intros H d Hd. rewrite forallb_forall in H. apply H. exact Hd. Qed.
