(* C01/Examples.v — a concrete cluster satisfying the hypotheses of the theorems (non-vacuity), and the witnesses of
   the two known findings, checked by computation with the instantiation of C01/Inst.v. *)
Require Import PG.Base.Bytes PG.Base.GoSlice PG.Base.Value.
Require Import PG.C02.Spec PG.C03.Model PG.C03.Spec PG.C03.Inst.
Require Import PG.C01.Lib PG.C01.Model PG.C01.Spec PG.C01.Inst PG.C01.Check.

(* HEAP_XMIN_COMMITTED|HEAP_XMAX_INVALID = 0x0900 (live);  HEAP_XMIN_COMMITTED|HEAP_XMAX_COMMITTED = 0x0500 (deleted) *)
Definition h_live : vhdr := {| vh_head := repeat x11 18; vh_flags2 := 0; vh_mask_hi := 1152; vh_extra := 0 |}.
Definition h_dead : vhdr := {| vh_head := repeat x22 18; vh_flags2 := 2; vh_mask_hi := 640; vh_extra := 1 |}.
Definition pg {A} (items : list (version A)) : hblock A := HPage {| hp_lsn := repeat x33 12; hp_prune := zeros 4; hp_items := items |}.
Definition stub_unused : lp := {| lp_off := 0; lp_flags := 0; lp_len := 0 |}.
Definition stub_dead : lp := {| lp_off := 8000; lp_flags := 3; lp_len := 40 |}.

Definition s_app : bytes := ["a"; "p"; "p"]%byte.
Definition s_App2 : bytes := ["A"; "p"; "p"; "2"]%byte.
Definition s_old : bytes := ["o"; "l"; "d"]%byte.
Definition s_template1 : bytes := ["t"; "e"; "m"; "p"; "l"; "a"; "t"; "e"; "1"]%byte.
Definition s_users : bytes := ["u"; "s"; "e"; "r"; "s"]%byte.
Definition s_users_old : bytes := ["u"; "s"; "r"]%byte.
Definition s_users_pkey : bytes := ["u"; "s"; "e"; "r"; "s"; "_"; "p"; "k"; "e"; "y"]%byte.
Definition s_seq : bytes := ["i"; "d"; "_"; "s"; "e"; "q"]%byte.
Definition s_pg_am : bytes := ["p"; "g"; "_"; "a"; "m"]%byte.
Definition s_pg_class : bytes := ["p"; "g"; "_"; "c"; "l"; "a"; "s"; "s"]%byte.
Definition s_v : bytes := ["v"; "w"]%byte.
Definition s_t2 : bytes := ["T"; "w"; "o"]%byte.
Definition s_id : bytes := ["i"; "d"]%byte.
Definition s_name : bytes := ["n"; "a"; "m"; "e"]%byte.
Definition s_ctid : bytes := ["c"; "t"; "i"; "d"]%byte.
Definition s_amname : bytes := ["a"; "m"; "n"; "a"; "m"; "e"]%byte.

Definition cls (oid : Z) (name : bytes) (fn kind : Z) : classrow :=
  {| cr_oid := oid; cr_name := name; cr_filenode := fn; cr_kind := kind; cr_misc := repeat x07 43 |}.
Definition att (relid : Z) (name : bytes) (typ len num align : Z) : attrow :=
  {| ar_relid := relid; ar_name := name; ar_typid := typ; ar_len := len; ar_num := num; ar_align := align;
     ar_misc := repeat xff 11 |}.

Definition ex_pgdb : heap dbrow :=
  [pg [VRow h_live {| dr_oid := 1; dr_name := s_template1 |}; VRow h_dead {| dr_oid := 16384; dr_name := s_old |};
       VRow h_live {| dr_oid := 16384; dr_name := s_app |}];
   HZero;
   pg [VStub stub_unused; VRow h_live {| dr_oid := 16385; dr_name := s_App2 |}; VStub stub_dead]].

(* database "app": users (oid 16400, filenode 16500), its index and sequence, a view, pg_am, pg_class itself (mapped) *)
Definition ex_class1 : heap classrow :=
  [pg [VRow h_live (cls 1259 s_pg_class 0 114); VRow h_dead (cls 16400 s_users_old 16499 114);
       VRow h_live (cls 16402 s_seq 16502 83); VRow h_live (cls 16400 s_users 16500 114)];
   pg [VRow h_live (cls 16401 s_users_pkey 16501 105); VRow h_live (cls 2601 s_pg_am 2601 114);
       VRow h_live (cls 16403 s_v 0 118)]].
Definition ex_attr1 (relid2 : Z) : heap attrow :=
  [pg [VRow h_live (att 16400 s_name 25 (-1) 2 105); VRow h_live (att 16400 s_ctid 27 6 (-1) 115);
       VRow h_dead (att 16400 s_name 1043 (-1) 2 105); VRow h_live (att 2601 s_amname 19 64 1 99);
       VRow h_live (att 16401 s_id 23 4 1 105)];
   pg [VRow h_live (att relid2 s_id 23 4 1 105)]].
Definition i4 (v : Z) : datum := DFixed (le_enc 4 v).
Definition ex_users : heap (list datum) :=
  [pg [VRow h_live [i4 1; DShort ["a"; "b"]%byte]; VRow h_dead [i4 2; DShort ["c"]%byte]; VStub stub_dead;
       VRow h_live [i4 3; DNull]; VRow h_live [i4 4]]].
Definition ex_am : heap (list datum) := [pg [VRow h_live [DFixed (name64 ["h"; "e"; "a"; "p"]%byte)]]].
Definition ex_dir1 : dbdir :=
  {| dir_oid := 16384; dir_class := ex_class1; dir_attr := ex_attr1 16400;
     dir_files := [{| rf_node := 16500; rf_cols := rel_cols (live_rows (ex_attr1 16400)) 16400; rf_heap := ex_users |};
                   {| rf_node := 2601; rf_cols := rel_cols (live_rows (ex_attr1 16400)) 2601; rf_heap := ex_am |};
                   {| rf_node := 16501; rf_cols := []; rf_heap := [] |}] |}.
(* database "App2": one table *)
Definition ex_attr2 : heap attrow := [pg [VRow h_live (att 16410 s_id 23 4 1 105)]].
Definition ex_dir2 : dbdir :=
  {| dir_oid := 16385; dir_class := [pg [VRow h_live (cls 16410 s_t2 16410 114)]]; dir_attr := ex_attr2;
     dir_files := [{| rf_node := 16410; rf_cols := rel_cols (live_rows ex_attr2) 16410;
                      rf_heap := [pg [VRow h_live [i4 7]; VRow h_live [i4 8]]] |}] |}.
Definition ex_cluster : cluster := {| cl_v16 := false; cl_pgdb := ex_pgdb; cl_dirs := [ex_dir1; ex_dir2] |}.

Definition o_all : Options := {| o_dbfilter := []; o_tablefilter := []; o_listonly := false; o_skipsys := false; o_pgversion := 0 |}.

Example ex_cluster_ok : wf_cluster_b ex_cluster = true /\ detect_ok_b ex_cluster None = true /\ detect_ok_b ex_cluster (Some o_all) = true.
Proof. vm_compute. auto. Qed.

(* the theorem instance, replayed by computation: two databases, tables in filenode order, columns by attnum *)
Example ex_cluster_dump :
  DumpDataDir_i (enc_cluster ex_cluster) (Some o_all) = Ok (Some (expected_dump_i ex_cluster (Some o_all))).
Proof. vm_compute. reflexivity. Qed.

(* ---------- known finding C01-detect-v16 (D62) ---------- *)
(* a PostgreSQL 16 layout cluster with one table t(a int4, b int4): only two live pg_attribute rows (and the first
   one is attnum 2), so auto-detection falls back to the <= 15 layout and reads every attribute row wrongly *)
Definition s_a : bytes := ["a"]%byte.
Definition s_b : bytes := ["b"]%byte.
Definition ex_detect_attr : heap attrow := [pg [VRow h_live (att 16410 s_b 23 4 2 105); VRow h_live (att 16410 s_a 23 4 1 105)]].
Definition ex_detect : cluster :=
  {| cl_v16 := true; cl_pgdb := [pg [VRow h_live {| dr_oid := 16384; dr_name := s_app |}]];
     cl_dirs := [{| dir_oid := 16384; dir_class := [pg [VRow h_live (cls 16410 s_t2 16411 114)]]; dir_attr := ex_detect_attr;
                    dir_files := [{| rf_node := 16411; rf_cols := rel_cols (live_rows ex_detect_attr) 16410;
                                     rf_heap := [pg [VRow h_live [i4 7; i4 8]]] |}] |}] |}.
Definition shape (r : res (option (list DatabaseDump))) : list (list (Z * Z)) :=     (* per table: (#columns, row count) *)
  match r with
  | Ok (Some l) => map (fun d => map (fun t => (Z.of_nat (length (td_columns t)), td_rowcount t)) (dd_tables d)) l
  | _ => []
  end.
Example ex_detect_refuted :
  wf_cluster_b ex_detect = true /\ kf_detect ex_detect None = true /\
  shape (DumpDataDir_i (enc_cluster ex_detect) None) <> shape (Ok (Some (expected_dump_i ex_detect None))).
Proof. vm_compute. repeat split; discriminate. Qed.
(* with the layout named by the hint the same cluster dumps correctly *)
Definition o_v16 : Options := {| o_dbfilter := []; o_tablefilter := []; o_listonly := false; o_skipsys := true; o_pgversion := 16 |}.
Example ex_detect_hinted :
  DumpDataDir_i (enc_cluster ex_detect) (Some o_v16) = Ok (Some (expected_dump_i ex_detect (Some o_v16))).
Proof. vm_compute. reflexivity. Qed.

(* ---------- known finding C01-zero-column-rows ---------- *)
(* CREATE TABLE z(); two rows inserted: the rows are live in the heap file but the dump reports none *)
Definition ex_zerocol : cluster :=
  {| cl_v16 := false; cl_pgdb := [pg [VRow h_live {| dr_oid := 16384; dr_name := s_app |}]];
     cl_dirs := [{| dir_oid := 16384; dir_class := [pg [VRow h_live (cls 16420 s_t2 16420 114)]]; dir_attr := [pg []];
                    dir_files := [{| rf_node := 16420; rf_cols := []; rf_heap := [pg [VRow h_live []; VRow h_live []]] |}] |}] |}.
Example ex_zerocol_refuted :
  wf_cluster_relaxed_b ex_zerocol = true /\ kf_zero_columns ex_zerocol = true /\ detect_ok_b ex_zerocol None = true /\
  shape (DumpDataDir_i (enc_cluster ex_zerocol) None) = [[(0, 0)]] /\
  shape (Ok (Some (expected_dump_i ex_zerocol None))) = [[(0, 2)]].
Proof. vm_compute. auto. Qed.
