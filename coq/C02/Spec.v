(* Spec for C02: PostgreSQL heap pages and tuples (bufpage.h, itemid.h, htup_details.h), 8 KiB blocks. *)
Require Import PG.Base.Bytes.

(* ---- heap tuple: HeapTupleHeaderData (23 bytes) + bitmap/padding up to t_hoff + data ---- *)
Record tup := {
  tp_head : bytes;     (* 18 bytes: t_xmin, t_xmax, t_cid/t_xvac, t_ctid *)
  tp_natts : Z;        (* low 11 bits of t_infomask2 *)
  tp_flags2 : Z;       (* high 5 bits of t_infomask2 (HEAP_KEYS_UPDATED, HOT flags, ...) *)
  tp_infomask : Z;
  tp_hoff : Z;
  tp_mid : bytes;      (* bytes 23 .. t_hoff: null bitmap (if HEAP_HASNULL) then padding *)
  tp_data : bytes }.

Definition enc_tuple (t : tup) : bytes :=
  tp_head t ++ le_enc 2 (tp_natts t + 2048 * tp_flags2 t) ++ le_enc 2 (tp_infomask t) ++
  [z2b (tp_hoff t)] ++ tp_mid t ++ tp_data t.

Definition hasnull (t : tup) : bool := Z.odd (tp_infomask t).
Definition bitmap_len (t : tup) : Z := (tp_natts t + 7) / 8.

Definition wf_tup (t : tup) : Prop :=
  blen (tp_head t) = 18 /\ 0 <= tp_natts t < 2048 /\ 0 <= tp_flags2 t < 32 /\
  0 <= tp_infomask t < 65536 /\ 23 <= tp_hoff t <= 255 /\ blen (tp_mid t) = tp_hoff t - 23 /\
  (hasnull t = true -> bitmap_len t <= blen (tp_mid t)).
(* PostgreSQL: t_hoff = MAXALIGN(23 + bitmap_len) so the last clause always holds; natts <= 1600. *)

Definition tup_len (t : tup) : Z := tp_hoff t + blen (tp_data t).

Definition flag (m k : Z) : bool := Z.testbit m k.
(* what the scan must report for a stored tuple *)
Record tuple_obs := { o_hoff : Z; o_natts : Z; o_infomask : Z; o_flags : bool * bool * bool * bool;
                      o_bitmap : option bytes; o_data : bytes; o_pageoff : Z }.
Definition expected_tuple (t : tup) (pageoff : Z) : tuple_obs :=
  {| o_hoff := tp_hoff t; o_natts := tp_natts t; o_infomask := tp_infomask t;
     o_flags := (flag (tp_infomask t) 0, flag (tp_infomask t) 8, flag (tp_infomask t) 11, flag (tp_infomask t) 10);
     o_bitmap := if hasnull t then Some (firstn (Z.to_nat (bitmap_len t)) (tp_mid t)) else None;
     o_data := tp_data t; o_pageoff := pageoff |}.

(* ---- page ---- *)
Record lp := { lp_off : Z; lp_flags : Z; lp_len : Z }.   (* ItemIdData: lp_off:15, lp_flags:2, lp_len:15 *)
Definition LP_UNUSED := 0. Definition LP_NORMAL := 1. Definition LP_REDIRECT := 2. Definition LP_DEAD := 3.
Definition enc_lp (l : lp) : bytes := le_enc 4 (lp_off l + 32768 * lp_flags l + 131072 * lp_len l).

Record page := {
  pg_lsn_etc : bytes;      (* 12 bytes: pd_lsn (8), pd_checksum (2), pd_flags (2) *)
  pg_upper : Z; pg_special : Z; pg_version : Z;
  pg_prune : bytes;        (* 4 bytes pd_prune_xid *)
  pg_lps : list (lp * option tup);   (* line pointers in order; Some t for the tuple a NORMAL pointer designates *)
  pg_body : bytes }.       (* the 8192 - pd_lower bytes after the line pointer array *)

Definition pg_lower (p : page) : Z := 24 + 4 * Z.of_nat (length (pg_lps p)).
Definition enc_lps (l : list (lp * option tup)) : bytes := concat (map (fun x => enc_lp (fst x)) l).
Definition enc_page (p : page) : bytes :=
  pg_lsn_etc p ++ le_enc 2 (pg_lower p) ++ le_enc 2 (pg_upper p) ++ le_enc 2 (pg_special p) ++
  le_enc 2 (8192 + pg_version p) ++ pg_prune p ++ enc_lps (pg_lps p) ++ pg_body p.

Definition wf_lp (img : bytes) (upper special : Z) (x : lp * option tup) : Prop :=
  let l := fst x in
  0 <= lp_off l < 32768 /\ 0 <= lp_flags l < 4 /\ 0 <= lp_len l < 32768 /\
  (lp_flags l = LP_NORMAL ->
     exists t, snd x = Some t /\ wf_tup t /\ lp_len l = tup_len t /\
               upper <= lp_off l /\ lp_off l + lp_len l <= special /\
               sub img (lp_off l) (lp_off l + lp_len l) = enc_tuple t).
(* Tuples may sit anywhere between pd_upper and pd_special, in any order, even overlapping:
   only "the bytes at [off, off+len) are this tuple" is required. *)

Definition wf_page (p : page) : Prop :=
  blen (pg_lsn_etc p) = 12 /\ blen (pg_prune p) = 4 /\ 1 <= pg_version p <= 10 /\
  pg_lower p <= pg_upper p /\ pg_upper p <= pg_special p /\ pg_special p <= 8192 /\
  blen (pg_body p) = 8192 - pg_lower p /\
  Forall (wf_lp (enc_page p) (pg_upper p) (pg_special p)) (pg_lps p).
(* pg_version: PostgreSQL >= 8.3 writes 4; the tool accepts layout versions 1..10. *)

Definition normal_tuples (p : page) : list tup :=
  flat_map (fun x => if lp_flags (fst x) =? LP_NORMAL then match snd x with Some t => [t] | None => [] end else [])
           (pg_lps p).
Definition expected_page (p : page) (pageoff : Z) : list tuple_obs :=
  map (fun t => expected_tuple t pageoff) (normal_tuples p).

(* ---- heap file: blocks (a formatted page or an all-zero, never-initialised page) + partial tail ---- *)
Inductive block := BPage (p : page) | BZero.
Definition enc_block (b : block) : bytes := match b with BPage p => enc_page p | BZero => zeros 8192 end.
Definition wf_block (b : block) : Prop := match b with BPage p => wf_page p | BZero => True end.
Definition enc_file (bs : list block) (tl : bytes) : bytes := concat (map enc_block bs) ++ tl.
Fixpoint expected_file (bs : list block) (off : Z) : list tuple_obs :=
  match bs with
  | [] => []
  | BPage p :: r => expected_page p off ++ expected_file r (off + 8192)
  | BZero :: r => expected_file r (off + 8192)
  end.

(* shifting the page offsets of a scan result *)
Definition shift_obs (d : Z) (o : tuple_obs) : tuple_obs :=
  {| o_hoff := o_hoff o; o_natts := o_natts o; o_infomask := o_infomask o; o_flags := o_flags o;
     o_bitmap := o_bitmap o; o_data := o_data o; o_pageoff := o_pageoff o + d |}.
