(* Model of pgdump/page.go, pgdump/tuple.go and ReadTuples/ParseFile of pgdump/heap.go
   (as repaired by "fix: parseItems read line pointers past the end of the page slice"). *)
Require Import PG.Base.Bytes PG.Base.GoSlice.

Definition PageSize : Z := 8192.
Definition headerSize : Z := 24.
Definition itemIDSize : Z := 4.
Definition tupleHeaderSize : Z := 23.

(* ---------------- page.go ---------------- *)
Record PageHeader := { ph_lower : Z; ph_upper : Z; ph_size : Z; ph_version : Z }.
Record ItemID := { it_off : Z; it_len : Z; it_flags : Z }.

(* page.go:55-63.  psv & 0xFF00 and psv & 0x00FF on a uint16 *)
Definition parseHeader (s : gslice) : res PageHeader :=
  psv <- u16 s 18 ;; lo <- u16 s 12 ;; up <- u16 s 14 ;;
  Ok {| ph_lower := lo; ph_upper := up; ph_size := psv / 256 * 256; ph_version := psv mod 256 |}.

(* page.go:65-76 (repaired): for off := 24; off < Lower && off+4 <= len(data); off += 4.
   raw & 0x7FFF, (raw>>15)&3, (raw>>17)&0x7FFF on a uint32 *)
Definition mkItem (raw : Z) : ItemID :=
  {| it_off := raw mod 32768; it_flags := (raw / 32768) mod 4; it_len := (raw / 131072) mod 32768 |}.
Fixpoint parseItems_loop (fuel : nat) (s : gslice) (lower off : Z) : res (list ItemID) :=
  match fuel with
  | O => Ok []
  | S k => if (off <? lower) && (off + itemIDSize <=? len s) then
             raw <- u32 s off ;; r <- parseItems_loop k s lower (off + itemIDSize) ;; Ok (mkItem raw :: r)
           else Ok []
  end.
(* fuel: the loop runs at most len/4 times *)
Definition parseItems (s : gslice) (h : PageHeader) : res (list ItemID) :=
  parseItems_loop (Z.to_nat (len s / 4 + 1)) s (ph_lower h) headerSize.

(* page.go:78-86 *)
Definition validHeader (h : PageHeader) : bool :=
  ((ph_size h =? 8192) || (ph_size h =? 16384) || (ph_size h =? 32768)) &&
  (1 <=? ph_version h) && (ph_version h <=? 10) &&
  (headerSize <=? ph_lower h) && (ph_upper h <=? ph_size h) && (ph_lower h <=? ph_upper h).

(* ---------------- tuple.go ---------------- *)
Record HeapTuple := {
  t_hoff : Z; t_natts : Z; t_infomask : Z;
  t_hasnull : bool; t_xminc : bool; t_xmaxinv : bool; t_xmaxc : bool;
  t_bitmap : option gslice;      (* nil vs non-nil (possibly empty) slice *)
  t_data : gslice }.

Definition bit (m mask : Z) : bool := negb ((m / mask) mod 2 =? 0).   (* m & mask != 0 for mask = 2^k *)

(* tuple.go:24-61 *)
Definition ParseHeapTuple (s : gslice) : res (option HeapTuple) :=
  if len s <? tupleHeaderSize then Ok None else
  infomask <- u16 s 20 ;; infomask2 <- u16 s 18 ;; hoff <- idx s 22 ;;
  if hoff >? len s then Ok None else
  let natts := infomask2 mod 2048 in
  let hasnull := bit infomask 1 in
  d <- slice_from s hoff ;;
  bm <- (if hasnull then
           let bb := (natts + 7) / 8 in
           if len s >=? tupleHeaderSize + bb
           then b <- slice s tupleHeaderSize (tupleHeaderSize + bb) ;; Ok (Some b)
           else Ok None
         else Ok None) ;;
  Ok (Some {| t_hoff := hoff; t_natts := natts; t_infomask := infomask;
              t_hasnull := hasnull; t_xminc := bit infomask 256; t_xmaxinv := bit infomask 2048;
              t_xmaxc := bit infomask 1024; t_bitmap := bm; t_data := d |}).

(* tuple.go:63-66 *)
Definition IsVisible (t : HeapTuple) : bool := t_xminc t && (t_xmaxinv t || negb (t_xmaxc t)).

(* tuple.go:69-78.  attnum is 1-indexed; Go's / and % truncate, attnum-1 >= 0 here *)
Definition IsNull (t : HeapTuple) (attnum : Z) : res bool :=
  match t_bitmap t with
  | None => Ok false
  | Some bm =>
    if attnum <=? 0 then Ok false else
    let byteIdx := (attnum - 1) / 8 in let bitIdx := (attnum - 1) mod 8 in
    if byteIdx >=? len bm then Ok true else
    b <- idx bm byteIdx ;; Ok ((b / 2 ^ bitIdx) mod 2 =? 0)
  end.

(* ---------------- page.go:28-53 ParsePage ---------------- *)
Fixpoint ParsePage_items (s : gslice) (upper : Z) (items : list ItemID) : res (list HeapTuple) :=
  match items with
  | [] => Ok []
  | it :: rest =>
    if negb (it_flags it =? 1) || (it_len it <=? 0) then ParsePage_items s upper rest else
    if (it_off it <? upper) || (it_off it + it_len it >? PageSize) then ParsePage_items s upper rest else
    ts <- slice s (it_off it) (it_off it + it_len it) ;;
    ot <- ParseHeapTuple ts ;;
    r <- ParsePage_items s upper rest ;;
    Ok (match ot with Some t => t :: r | None => r end)
  end.

Definition ParsePage (s : gslice) : res (list HeapTuple) :=
  if len s <? PageSize then Ok [] else
  h <- parseHeader s ;;
  if negb (validHeader h) then Ok [] else
  items <- parseItems s h ;;
  ParsePage_items s (ph_upper h) items.

(* ---------------- heap.go:6-18 ReadTuples ---------------- *)
Record TupleEntry := { e_tuple : HeapTuple; e_pageoff : Z }.

Fixpoint ReadTuples_loop (fuel : nat) (s : gslice) (visibleOnly : bool) (off : Z) : res (list TupleEntry) :=
  match fuel with
  | O => Ok []
  | S k => if off + PageSize <=? len s then
             pg <- slice s off (off + PageSize) ;;
             ts <- ParsePage pg ;;
             let keep := filter (fun t => negb visibleOnly || IsVisible t) ts in
             r <- ReadTuples_loop k s visibleOnly (off + PageSize) ;;
             Ok (map (fun t => {| e_tuple := t; e_pageoff := off |}) keep ++ r)
           else Ok []
  end.
Definition ReadTuples (s : gslice) (visibleOnly : bool) : res (list TupleEntry) :=
  ReadTuples_loop (Z.to_nat (len s / PageSize)) s visibleOnly 0.

(* pgdump.go:213-216 *)
Definition ParseFile (s : gslice) : res (list TupleEntry) := ReadTuples s true.

(* What a caller can observe of an entry (capacity tails are not observable through the API:
   every later access to Bitmap/Data is bounded by len). *)
Record tuple_view := { v_hoff : Z; v_natts : Z; v_infomask : Z; v_flags : bool * bool * bool * bool;
                       v_bitmap : option bytes; v_data : bytes; v_pageoff : Z }.
Definition view (e : TupleEntry) : tuple_view :=
  let t := e_tuple e in
  {| v_hoff := t_hoff t; v_natts := t_natts t; v_infomask := t_infomask t;
     v_flags := (t_hasnull t, t_xminc t, t_xmaxinv t, t_xmaxc t);
     v_bitmap := option_map vis (t_bitmap t); v_data := vis (t_data t); v_pageoff := e_pageoff e |}.
Definition views (r : res (list TupleEntry)) : res (list tuple_view) :=
  match r with Ok l => Ok (map view l) | Panic => Panic end.
