(* The Go-faithful model never panics and is observationally the pure function of the visible bytes. *)
Require Import PG.Base.Bytes PG.Base.GoSlice PG.C02.Model PG.C02.Spec PG.C02.Pure.

Lemma ParseHeapTuple_refines s :
  exists o, ParseHeapTuple s = Ok o /\ forall po, option_map (fun t => obs_tuple t po) o = p_tuple (vis s) po.
Proof.
  unfold ParseHeapTuple, p_tuple, tupleHeaderSize, pu. fold (len s).
  destruct (len s <? 23) eqn:E; [exists None; split; reflexivity|].
  unfold u16. rewrite (uN_val 2 s 20), (uN_val 2 s 18) by lia. cbn [bind].
  rewrite idx_ok by lia. cbn [bind].
  change (20 + Z.of_nat 2) with 22. change (18 + Z.of_nat 2) with 20.
  change (20 + 2) with 22. change (18 + 2) with 20.
  set (infomask := le_dec (sub (vis s) 20 22)). set (infomask2 := le_dec (sub (vis s) 18 20)).
  set (hoff := byte_at (vis s) 22).
  assert (Hh : 0 <= hoff < 256) by apply byte_at_range.
  destruct (hoff >? len s) eqn:E2; [exists None; split; reflexivity|].
  unfold slice_from. destruct ((0 <=? hoff) && (hoff <=? len s)) eqn:E3; [|lia]. cbn [bind].
  set (natts := infomask2 mod 2048).
  destruct (bit infomask 1) eqn:HN.
  - destruct (len s >=? 23 + (natts + 7) / 8) eqn:E4.
    + unfold slice. pose proof (len_le_cap s).
      assert (0 <= natts) by (unfold natts; lia).
      destruct ((0 <=? 23) && (23 <=? 23 + (natts + 7) / 8) && (23 + (natts + 7) / 8 <=? cap s)) eqn:E5; [|lia].
      cbn [bind]. eexists; split; [reflexivity|]. intros po. cbn [option_map]. unfold obs_tuple; cbn [t_hoff t_natts t_infomask t_hasnull t_xminc t_xmaxinv t_xmaxc t_bitmap t_data vis option_map].
      unfold mem. rewrite sub_app_l by (fold (len s); lia). reflexivity.
    + cbn [bind]. eexists; split; [reflexivity|]. intros po. cbn [option_map]. unfold obs_tuple; cbn [t_hoff t_natts t_infomask t_hasnull t_xminc t_xmaxinv t_xmaxc t_bitmap t_data vis option_map].
      reflexivity.
  - cbn [bind]. eexists; split; [reflexivity|]. intros po. cbn [option_map]. unfold obs_tuple; cbn [t_hoff t_natts t_infomask t_hasnull t_xminc t_xmaxinv t_xmaxc t_bitmap t_data vis option_map].
    reflexivity.
Qed.

Lemma parseItems_loop_refines : forall fuel s lower off, 0 <= off ->
  parseItems_loop fuel s lower off = Ok (p_items fuel (vis s) lower off).
Proof.
  induction fuel as [|k IH]; intros s lower off Hoff; cbn [parseItems_loop p_items]; [reflexivity|].
  unfold itemIDSize. fold (len s).
  destruct ((off <? lower) && (off + 4 <=? len s)) eqn:E; [|reflexivity].
  unfold u32. rewrite (uN_val 4 s off) by lia. cbn [bind].
  rewrite IH by lia. cbn [bind]. reflexivity.
Qed.

Lemma mkItem_nonneg raw : 0 <= raw -> 0 <= it_off (mkItem raw) < 32768 /\ 0 <= it_len (mkItem raw) < 32768.
Proof. intros. unfold mkItem; cbn. lia. Qed.

Lemma p_items_nonneg : forall fuel v lower off,
  Forall (fun it => 0 <= it_off it < 32768 /\ 0 <= it_len it < 32768) (p_items fuel v lower off).
Proof.
  induction fuel as [|k IH]; intros; cbn [p_items]; [constructor|].
  destruct (_ && _); [|constructor]. constructor; [|apply IH].
  apply mkItem_nonneg. unfold pu. apply le_dec_range.
Qed.

Lemma ParsePage_items_refines : forall items s upper,
  8192 <= len s ->
  Forall (fun it => 0 <= it_off it < 32768 /\ 0 <= it_len it < 32768) items ->
  exists l, ParsePage_items s upper items = Ok l /\
            forall po, map (fun t => obs_tuple t po) l = flat_map (p_item_tuple (vis s) upper po) items.
Proof.
  induction items as [|it rest IH]; intros s upper L F; cbn [ParsePage_items flat_map].
  - exists []. split; reflexivity.
  - inversion F as [|? ? [Ho Hl] F']; subst.
    destruct (IH s upper L F') as (l & Hl1 & Hl2).
    unfold p_item_tuple at 1. unfold PageSize.
    destruct (negb (it_flags it =? 1) || (it_len it <=? 0)) eqn:E1.
    { exists l. split; [exact Hl1|]. intros po. cbn [app]. apply Hl2. }
    destruct ((it_off it <? upper) || (it_off it + it_len it >? 8192)) eqn:E2.
    { exists l. split; [exact Hl1|]. intros po. cbn [app]. apply Hl2. }
    pose proof (len_le_cap s).
    destruct (slice_ok s (it_off it) (it_off it + it_len it)) as [ts Hts]; try lia.
    rewrite Hts. cbn [bind].
    pose proof (slice_vis_within _ _ _ _ Hts ltac:(lia)) as Hv.
    destruct (ParseHeapTuple_refines ts) as (o & Ho1 & Ho2). rewrite Ho1. cbn [bind].
    rewrite Hl1. cbn [bind]. rewrite <- Hv.
    destruct o as [t|].
    + exists (t :: l). split; [reflexivity|]. intros po. rewrite <- Ho2. cbn [option_map map app]. f_equal. apply Hl2.
    + exists l. split; [reflexivity|]. intros po. rewrite <- Ho2. cbn [option_map app]. apply Hl2.
Qed.

Lemma parseHeader_refines s : 20 <= len s -> parseHeader s = Ok (p_header (vis s)).
Proof.
  intros L. unfold parseHeader, p_header, pu, u16.
  rewrite (uN_val 2 s 18), (uN_val 2 s 12), (uN_val 2 s 14) by lia. reflexivity.
Qed.

Lemma ParsePage_refines s :
  exists l, ParsePage s = Ok l /\ forall po, map (fun t => obs_tuple t po) l = p_page (vis s) po.
Proof.
  unfold ParsePage, p_page, PageSize. fold (len s).
  destruct (len s <? 8192) eqn:E; [exists []; split; reflexivity|].
  rewrite parseHeader_refines by lia. cbn [bind].
  destruct (negb (validHeader (p_header (vis s)))) eqn:V; [exists []; split; reflexivity|].
  unfold parseItems, headerSize. rewrite parseItems_loop_refines by lia. cbn [bind].
  apply ParsePage_items_refines; [lia|apply p_items_nonneg].
Qed.

Lemma IsVisible_obs t po : IsVisible t = obs_visible (obs_tuple t po).
Proof. reflexivity. Qed.

Lemma filter_map_obs (f : tuple_obs -> bool) (g : HeapTuple -> bool) po (l : list HeapTuple) :
  (forall t, g t = f (obs_tuple t po)) ->
  map (fun t => obs_tuple t po) (filter g l) = filter f (map (fun t => obs_tuple t po) l).
Proof.
  intros H. induction l as [|t l IH]; [reflexivity|]. cbn [filter map]. rewrite H.
  destruct (f (obs_tuple t po)); cbn [map]; rewrite IH; reflexivity.
Qed.

Lemma ReadTuples_loop_refines : forall fuel s vo off, 0 <= off ->
  exists l, ReadTuples_loop fuel s vo off = Ok l /\ map obs_entry l = p_file_loop fuel (vis s) vo off.
Proof.
  induction fuel as [|k IH]; intros s vo off Hoff; cbn [ReadTuples_loop p_file_loop].
  - exists []. split; reflexivity.
  - unfold PageSize. fold (len s).
    destruct (off + 8192 <=? len s) eqn:E; [|exists []; split; reflexivity].
    pose proof (len_le_cap s).
    destruct (slice_ok s off (off + 8192)) as [pg Hpg]; try lia. rewrite Hpg. cbn [bind].
    pose proof (slice_vis_within _ _ _ _ Hpg ltac:(lia)) as Hv.
    destruct (ParsePage_refines pg) as (ts & Hts1 & Hts2). rewrite Hts1. cbn [bind].
    destruct (IH s vo (off + 8192) ltac:(lia)) as (r & Hr1 & Hr2). rewrite Hr1. cbn [bind].
    eexists. split; [reflexivity|].
    rewrite map_app, map_map. unfold obs_entry at 1. cbn [e_tuple e_pageoff].
    rewrite Hr2. f_equal. rewrite <- Hv, <- (Hts2 off).
    apply (filter_map_obs (fun o => negb vo || obs_visible o)). intros t. reflexivity.
Qed.

Theorem ReadTuples_refines s vo :
  exists l, ReadTuples s vo = Ok l /\ map obs_entry l = p_file (vis s) vo.
Proof. unfold ReadTuples, p_file. fold (len s). apply ReadTuples_loop_refines. lia. Qed.

Corollary ReadTuples_obs s vo : obs_entries (ReadTuples s vo) = Ok (p_file (vis s) vo).
Proof. destruct (ReadTuples_refines s vo) as (l & H1 & H2). rewrite H1. cbn. rewrite H2. reflexivity. Qed.

Corollary ReadTuples_no_panic s vo : ReadTuples s vo <> Panic.
Proof. destruct (ReadTuples_refines s vo) as (l & H1 & _). rewrite H1. discriminate. Qed.
Corollary ParsePage_no_panic s : ParsePage s <> Panic.
Proof. destruct (ParsePage_refines s) as (l & H1 & _). rewrite H1. discriminate. Qed.
Corollary ParseHeapTuple_no_panic s : ParseHeapTuple s <> Panic.
Proof. destruct (ParseHeapTuple_refines s) as (l & H1 & _). rewrite H1. discriminate. Qed.
