Require Import PG.C02.Model PG.C02.Spec PG.C02.Pure.
Require Extraction. Require ExtrOcamlBasic.
Extraction "model.ml" ReadTuples ParsePage ParseHeapTuple IsNull obs_entries obs_tuple
  enc_tuple enc_page enc_file expected_file expected_tuple expected_page shift_obs p_file.
