(* Total, panic-free functions on plain byte strings that the Go-faithful model refines
   (C02/Refine.v).  They describe what a caller can observe: capacity tails are invisible. *)
Require Import PG.Base.Bytes PG.Base.GoSlice PG.C02.Model PG.C02.Spec.

Definition pu (n : Z) (v : bytes) (off : Z) : Z := le_dec (sub v off (off + n)).

Definition p_tuple (v : bytes) (pageoff : Z) : option tuple_obs :=
  if blen v <? 23 then None else
  let infomask := pu 2 v 20 in let infomask2 := pu 2 v 18 in let hoff := byte_at v 22 in
  if hoff >? blen v then None else
  let natts := infomask2 mod 2048 in
  let hn := bit infomask 1 in
  let bb := (natts + 7) / 8 in
  Some {| o_hoff := hoff; o_natts := natts; o_infomask := infomask;
          o_flags := (hn, bit infomask 256, bit infomask 2048, bit infomask 1024);
          o_bitmap := if hn then (if blen v >=? 23 + bb then Some (sub v 23 (23 + bb)) else None) else None;
          o_data := sub v hoff (blen v); o_pageoff := pageoff |}.

Definition obs_visible (o : tuple_obs) : bool :=
  let '(_, xminc, xmaxinv, xmaxc) := o_flags o in xminc && (xmaxinv || negb xmaxc).

Fixpoint p_items (fuel : nat) (v : bytes) (lower off : Z) : list ItemID :=
  match fuel with
  | O => []
  | S k => if (off <? lower) && (off + 4 <=? blen v)
           then mkItem (pu 4 v off) :: p_items k v lower (off + 4) else []
  end.

Definition p_header (v : bytes) : PageHeader :=
  let psv := pu 2 v 18 in
  {| ph_lower := pu 2 v 12; ph_upper := pu 2 v 14; ph_size := psv / 256 * 256; ph_version := psv mod 256 |}.

Definition p_item_tuple (v : bytes) (upper : Z) (pageoff : Z) (it : ItemID) : list tuple_obs :=
  if negb (it_flags it =? 1) || (it_len it <=? 0) then [] else
  if (it_off it <? upper) || (it_off it + it_len it >? 8192) then [] else
  match p_tuple (sub v (it_off it) (it_off it + it_len it)) pageoff with Some t => [t] | None => [] end.

Definition p_page (v : bytes) (pageoff : Z) : list tuple_obs :=
  if blen v <? 8192 then [] else
  let h := p_header v in
  if negb (validHeader h) then [] else
  flat_map (p_item_tuple v (ph_upper h) pageoff) (p_items (Z.to_nat (blen v / 4 + 1)) v (ph_lower h) 24).

Fixpoint p_file_loop (fuel : nat) (v : bytes) (visibleOnly : bool) (off : Z) : list tuple_obs :=
  match fuel with
  | O => []
  | S k => if off + 8192 <=? blen v then
             filter (fun o => negb visibleOnly || obs_visible o) (p_page (sub v off (off + 8192)) off)
             ++ p_file_loop k v visibleOnly (off + 8192)
           else []
  end.
Definition p_file (v : bytes) (visibleOnly : bool) : list tuple_obs :=
  p_file_loop (Z.to_nat (blen v / 8192)) v visibleOnly 0.

(* observation of a model result *)
Definition obs_tuple (t : HeapTuple) (pageoff : Z) : tuple_obs :=
  {| o_hoff := t_hoff t; o_natts := t_natts t; o_infomask := t_infomask t;
     o_flags := (t_hasnull t, t_xminc t, t_xmaxinv t, t_xmaxc t);
     o_bitmap := option_map vis (t_bitmap t); o_data := vis (t_data t); o_pageoff := pageoff |}.
Definition obs_entry (e : TupleEntry) : tuple_obs := obs_tuple (e_tuple e) (e_pageoff e).
Definition obs_entries (r : res (list TupleEntry)) : res (list tuple_obs) :=
  match r with Ok l => Ok (map obs_entry l) | Panic => Panic end.
