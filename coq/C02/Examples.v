Require Import PG.Base.Bytes PG.Base.GoSlice PG.C02.Model PG.C02.Spec PG.C02.Pure.

(* A page with line pointers in all four states; one tuple ends at byte 8191, one starts exactly at pd_upper,
   the second one has a null bitmap. *)
Definition ex_t1 : tup := {| tp_head := repeat x11 18; tp_natts := 3; tp_flags2 := 1; tp_infomask := 2306;
                             tp_hoff := 24; tp_mid := [x00]; tp_data := [x2a; x00; x00; x00; x07; x61; x62] |}.
Definition ex_t2 : tup := {| tp_head := repeat x22 18; tp_natts := 9; tp_flags2 := 0; tp_infomask := 1281;
                             tp_hoff := 32; tp_mid := [xff; x01; x00; x00; x00; x00; x00; x00; x00]; tp_data := [x01; x02] |}.
Definition ex_page : page :=
  {| pg_lsn_etc := repeat x33 12; pg_upper := 8127; pg_special := 8192; pg_version := 4; pg_prune := zeros 4;
     pg_lps := [({| lp_off := 8161; lp_flags := 1; lp_len := 31 |}, Some ex_t1);
                ({| lp_off := 0; lp_flags := 0; lp_len := 0 |}, None);
                ({| lp_off := 1; lp_flags := 2; lp_len := 0 |}, None);
                ({| lp_off := 8127; lp_flags := 1; lp_len := 34 |}, Some ex_t2);
                ({| lp_off := 8127; lp_flags := 3; lp_len := 34 |}, None)];
     pg_body := zeros (8127 - 44) ++ enc_tuple ex_t2 ++ enc_tuple ex_t1 |}.

Example ex_t1_wf : wf_tup ex_t1.
Proof. unfold wf_tup, hasnull, bitmap_len. cbn. repeat split; try lia; discriminate. Qed.
Example ex_t2_wf : wf_tup ex_t2.
Proof. unfold wf_tup, hasnull, bitmap_len. cbn. repeat split; try lia. Qed.

Example ex_page_wf : wf_page ex_page.
Proof.
  unfold wf_page. repeat split; try (vm_compute; (reflexivity || discriminate || lia)).
  repeat constructor; unfold wf_lp; cbn [fst snd lp_off lp_flags lp_len]; repeat split; try lia;
    unfold LP_NORMAL; try (intros Hc; discriminate Hc); intros _.
  - exists ex_t1. split; [reflexivity|]. split; [exact ex_t1_wf|].
    repeat split; try lia; vm_compute; (reflexivity || discriminate).
  - exists ex_t2. split; [reflexivity|]. split; [exact ex_t2_wf|].
    repeat split; try lia; vm_compute; (reflexivity || discriminate).
Qed.
