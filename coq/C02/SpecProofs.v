(* The pure scan inverts the reference writers (induction over line pointers and blocks), and the
   concatenation law for arbitrary byte strings. *)
Require Import PG.Base.Bytes PG.Base.GoSlice PG.C02.Model PG.C02.Spec PG.C02.Pure.

Lemma pu_at n v off x : sub v off (off + Z.of_nat n) = le_enc n x -> 0 <= x < 2 ^ (8 * Z.of_nat n) ->
  pu (Z.of_nat n) v off = x.
Proof. intros H R. unfold pu. rewrite H. apply le_dec_enc. exact R. Qed.

Lemma bit_testbit m k : 0 <= m -> 0 <= k -> bit m (2 ^ k) = Z.testbit m k.
Proof.
  intros Hm Hk. unfold bit. rewrite Z.testbit_odd, Z.shiftr_div_pow2 by lia.
  rewrite (Zmod_odd (m / 2 ^ k)). destruct (Z.odd (m / 2 ^ k)); reflexivity.
Qed.

Lemma enc_tuple_len t : wf_tup t -> blen (enc_tuple t) = tup_len t.
Proof. intros (H18 & _ & _ & _ & Hh & Hm & _). unfold enc_tuple, tup_len. bl. lia. Qed.

Lemma p_tuple_enc t po : wf_tup t -> p_tuple (enc_tuple t) po = Some (expected_tuple t po).
Proof.
  intros W. pose proof (enc_tuple_len t W) as L. destruct W as (H18 & Hn & Hf & Hi & Hh & Hm & Hb).
  unfold tup_len in L. pose proof (blen_nonneg (tp_data t)).
  unfold p_tuple. rewrite L.
  destruct (tp_hoff t + blen (tp_data t) <? 23) eqn:E; [lia|]. clear E.
  assert (I : pu 2 (enc_tuple t) 20 = tp_infomask t).
  { apply (pu_at 2); [|change (2 ^ (8 * Z.of_nat 2)) with 65536; lia]. unfold enc_tuple. ssub. }
  assert (I2 : pu 2 (enc_tuple t) 18 = tp_natts t + 2048 * tp_flags2 t).
  { apply (pu_at 2); [|change (2 ^ (8 * Z.of_nat 2)) with 65536; lia]. unfold enc_tuple. ssub. }
  assert (HO : byte_at (enc_tuple t) 22 = tp_hoff t).
  { rewrite byte_at_le_dec by (rewrite L; lia).
    replace (sub (enc_tuple t) 22 (22 + 1)) with [z2b (tp_hoff t)].
    - cbn [le_dec]. rewrite b2z_z2b. lia.
    - symmetry. unfold enc_tuple. ssub. }
  rewrite I, I2, HO.
  destruct (tp_hoff t >? tp_hoff t + blen (tp_data t)) eqn:E; [lia|]. clear E.
  replace ((tp_natts t + 2048 * tp_flags2 t) mod 2048) with (tp_natts t) by lia.
  unfold expected_tuple. f_equal. f_equal.
  - unfold flag. change 1 with (2 ^ 0) at 1. change 256 with (2 ^ 8). change 2048 with (2 ^ 11). change 1024 with (2 ^ 10).
    rewrite !bit_testbit by lia. reflexivity.
  - unfold hasnull, bitmap_len in *. change 1 with (2 ^ 0). rewrite bit_testbit by lia. rewrite Z.bit0_odd.
    destruct (Z.odd (tp_infomask t)) eqn:O; [|reflexivity].
    specialize (Hb eq_refl).
    assert (0 <= (tp_natts t + 7) / 8) by lia.
    destruct (tp_hoff t + blen (tp_data t) >=? 23 + (tp_natts t + 7) / 8) eqn:E; [|lia].
    f_equal. unfold enc_tuple. rewrite <- ?app_assoc.
    rewrite sub_app_r by (bl; lia). rewrite sub_app_r by (bl; lia). rewrite sub_app_r by (bl; lia).
    rewrite sub_app_r by (bl; lia). rewrite sub_app_l by (bl; lia). bl.
    unfold sub. replace (Z.to_nat (23 - blen (tp_head t) - Z.of_nat 2 - Z.of_nat 2 - (1 + 0))) with 0%nat by lia.
    cbn [skipn]. f_equal. lia.
  - unfold enc_tuple. ssub.
Qed.

(* ---- line pointer array ---- *)
Definition item_of (l : lp) : ItemID := {| it_off := lp_off l; it_len := lp_len l; it_flags := lp_flags l |}.
Definition lp_ok (l : lp) : Prop := 0 <= lp_off l < 32768 /\ 0 <= lp_flags l < 4 /\ 0 <= lp_len l < 32768.

Lemma mkItem_enc l : lp_ok l -> mkItem (lp_off l + 32768 * lp_flags l + 131072 * lp_len l) = item_of l.
Proof. intros (A & B & C). unfold mkItem, item_of. f_equal; lia. Qed.

Lemma enc_lps_len l : blen (enc_lps l) = 4 * Z.of_nat (length l).
Proof.
  unfold enc_lps. induction l as [|x l IH]; [reflexivity|]. cbn [map concat length]. bl. rewrite IH.
  unfold enc_lp. bl. lia.
Qed.
#[export] Hint Rewrite enc_lps_len : blen.

Lemma p_items_enc : forall lps fuel v off,
  Forall (fun x => lp_ok (fst x)) lps -> 0 <= off ->
  sub v off (off + 4 * Z.of_nat (length lps)) = enc_lps lps ->
  off + 4 * Z.of_nat (length lps) <= blen v ->
  (length lps < fuel)%nat ->
  p_items fuel v (off + 4 * Z.of_nat (length lps)) off = map (fun x => item_of (fst x)) lps.
Proof.
  induction lps as [|x lps IH]; intros fuel v off F Hoff Hsub Hlen Hfuel.
  - destruct fuel; [lia|]. cbn [p_items length]. destruct (_ && _) eqn:E; [lia|reflexivity].
  - destruct fuel as [|k]; [cbn [length] in Hfuel; lia|]. inversion F as [|? ? Hx F']; subst.
    cbn [length] in *. cbn [p_items map].
    destruct ((off <? off + 4 * Z.of_nat (S (length lps))) && (off + 4 <=? blen v)) eqn:E; [|lia]. clear E.
    assert (Hsplit : forall a b, 0 <= a -> a <= b -> b <= 4 * Z.of_nat (S (length lps)) ->
              sub v (off + a) (off + b) = sub (enc_lps (x :: lps)) a b).
    { intros a b Ha Hab Hb. rewrite <- Hsub. rewrite sub_sub by lia. reflexivity. }
    f_equal.
    + rewrite <- mkItem_enc by exact Hx. f_equal. apply (pu_at 4).
      * replace off with (off + 0) at 1 by lia. change (Z.of_nat 4) with 4. rewrite Hsplit by lia.
        unfold enc_lps. cbn [map concat]. unfold enc_lp. ssub.
      * destruct Hx as (A & B & C). change (2 ^ (8 * Z.of_nat 4)) with 4294967296. lia.
    + replace (off + 4 * Z.of_nat (S (length lps))) with ((off + 4) + 4 * Z.of_nat (length lps)) by lia.
      apply IH; auto; try lia.
      replace (off + 4 + 4 * Z.of_nat (length lps)) with (off + 4 * Z.of_nat (S (length lps))) by lia.
      rewrite Hsplit by lia. unfold enc_lps. cbn [map concat]. unfold enc_lp at 1.
      fold (enc_lps lps). ssub.
Qed.

(* ---- page ---- *)
Lemma enc_page_len p : wf_page p -> blen (enc_page p) = 8192.
Proof.
  intros (A & B & _ & _ & _ & _ & Hb & _). unfold enc_page. bl. unfold pg_lower in *. lia.
Qed.

Lemma p_page_enc p po : wf_page p -> p_page (enc_page p) po = expected_page p po.
Proof.
  intros W. pose proof (enc_page_len p W) as L.
  destruct W as (A & B & Hv & Hlu & Hus & Hs & Hb & F).
  assert (Hlow : 24 <= pg_lower p) by (unfold pg_lower; lia).
  unfold p_page. rewrite L. cbn [Z.ltb Z.compare Pos.compare Pos.compare_cont]. 
  destruct (8192 <? 8192) eqn:E0; [lia|]. clear E0.
  assert (H12 : pu 2 (enc_page p) 12 = pg_lower p).
  { apply (pu_at 2); [|change (2 ^ (8 * Z.of_nat 2)) with 65536; lia]. unfold enc_page. ssub. }
  assert (H14 : pu 2 (enc_page p) 14 = pg_upper p).
  { apply (pu_at 2); [|change (2 ^ (8 * Z.of_nat 2)) with 65536; lia]. unfold enc_page. ssub. }
  assert (H18 : pu 2 (enc_page p) 18 = 8192 + pg_version p).
  { apply (pu_at 2); [|change (2 ^ (8 * Z.of_nat 2)) with 65536; lia]. unfold enc_page. ssub. }
  unfold p_header. rewrite H12, H14, H18.
  unfold validHeader, headerSize. cbn [ph_size ph_version ph_lower ph_upper].
  replace ((8192 + pg_version p) / 256 * 256) with 8192 by lia.
  replace ((8192 + pg_version p) mod 256) with (pg_version p) by lia.
  rewrite Z.eqb_refl. cbn [orb andb negb].
  destruct ((1 <=? pg_version p) && (pg_version p <=? 10) && (24 <=? pg_lower p) &&
            (pg_upper p <=? 8192) && (pg_lower p <=? pg_upper p)) eqn:E; [|lia]. clear E. cbn [negb].
  unfold pg_lower at 1.
  rewrite p_items_enc; try lia.
  2:{ eapply Forall_impl; [|exact F]. intros x (a & b & c & _). repeat split; lia. }
  2:{ unfold enc_page. ssub. }
  2:{ rewrite L. unfold pg_lower in *. lia. }
  2:{ unfold pg_lower in *. change (8192 / 4 + 1) with 2049. lia. }
  (* now the per-item step *)
  unfold expected_page, normal_tuples.
  rewrite flat_map_concat_map, map_map, <- flat_map_concat_map.
  rewrite flat_map_concat_map. rewrite (flat_map_concat_map _ (pg_lps p)), concat_map, map_map.
  f_equal. apply map_ext_in. intros x Hin.
  rewrite Forall_forall in F. specialize (F x Hin). destruct F as (Fo & Ff & Fl & Fn).
  unfold p_item_tuple. cbn [item_of it_flags it_len it_off]. unfold LP_NORMAL in *.
  destruct (lp_flags (fst x) =? 1) eqn:E1; cbn [negb orb]; [|reflexivity].
  destruct (Fn ltac:(lia)) as (t & Hsnd & Wt & Hlen & Hup & Hsp & Himg).
  rewrite Hsnd. pose proof Wt as (_ & _ & _ & _ & Hh & _). unfold tup_len in Hlen.
  pose proof (blen_nonneg (tp_data t)).
  destruct (lp_len (fst x) <=? 0) eqn:E2; [lia|].
  destruct ((lp_off (fst x) <? pg_upper p) || (lp_off (fst x) + lp_len (fst x) >? 8192)) eqn:E3; [lia|].
  rewrite Himg, p_tuple_enc by exact Wt. reflexivity.
Qed.

Lemma zeros_page_invalid po : p_page (zeros 8192) po = [].
Proof. vm_compute. reflexivity. Qed.

(* ---- file ---- *)
Lemma enc_block_len b : wf_block b -> blen (enc_block b) = 8192.
Proof. destruct b; cbn [enc_block wf_block]; intros; [apply enc_page_len; auto|apply zeros_len; lia]. Qed.

Lemma p_block_enc b po : wf_block b -> p_page (enc_block b) po = match b with BPage p => expected_page p po | BZero => [] end.
Proof. destruct b; cbn [enc_block wf_block]; intros; [apply p_page_enc; auto|apply zeros_page_invalid]. Qed.

Lemma filter_all {A} (l : list A) : filter (fun _ => true) l = l.
Proof. induction l; cbn; congruence. Qed.

Lemma p_file_loop_enc : forall bs pre tl fuel,
  Forall wf_block bs -> blen tl < 8192 -> blen pre mod 8192 = 0 -> (length bs <= fuel)%nat ->
  p_file_loop fuel (pre ++ enc_file bs tl) false (blen pre) = expected_file bs (blen pre).
Proof.
  induction bs as [|b bs IH]; intros pre tl fuel F Htl Hpre Hfuel.
  - cbn [enc_file map concat app expected_file]. destruct fuel; [reflexivity|]. cbn [p_file_loop].
    bl. destruct (blen pre + 8192 <=? blen pre + blen tl) eqn:E; [lia|reflexivity].
  - destruct fuel as [|k]; [cbn [length] in Hfuel; lia|]. inversion F as [|? ? Hb F']; subst.
    pose proof (enc_block_len b Hb) as Lb.
    cbn [p_file_loop]. unfold enc_file. cbn [map concat]. bl.
    pose proof (blen_nonneg (concat (map enc_block bs))). pose proof (blen_nonneg tl). pose proof (blen_nonneg pre).
    destruct (blen pre + 8192 <=? blen pre + (blen (enc_block b) + blen (concat (map enc_block bs)) + blen tl)) eqn:E; [|lia].
    clear E. cbn [negb orb]. rewrite filter_all.
    replace (sub (pre ++ (enc_block b ++ concat (map enc_block bs)) ++ tl) (blen pre) (blen pre + 8192)) with (enc_block b).
    2:{ symmetry. rewrite <- ?app_assoc. apply sub_mid; lia. }
    rewrite p_block_enc by exact Hb.
    specialize (IH (pre ++ enc_block b) tl k F' Htl).
    unfold enc_file in IH. rewrite <- ?app_assoc in *. bl. rewrite Lb in IH.
    rewrite IH; [|lia|cbn [length] in Hfuel; lia].
    destruct b; reflexivity.
Qed.

Theorem p_file_enc bs tl : Forall wf_block bs -> blen tl < 8192 ->
  p_file (enc_file bs tl) false = expected_file bs 0.
Proof.
  intros F Htl. unfold p_file.
  assert (L : blen (enc_file bs tl) = 8192 * Z.of_nat (length bs) + blen tl).
  { unfold enc_file. bl. f_equal. induction F as [|b bs Hb F IH]; [reflexivity|].
    cbn [map concat length]. bl. rewrite IH, (enc_block_len b Hb). lia. }
  pose proof (p_file_loop_enc bs [] tl (Z.to_nat (blen (enc_file bs tl) / 8192)) F Htl) as H.
  cbn [app blen length] in H. apply H; [reflexivity|].
  rewrite L. pose proof (blen_nonneg tl). lia.
Qed.

(* ---- concatenation, for ALL byte strings ---- *)
Lemma p_file_loop_fuel : forall fuel1 fuel2 v vo off, 0 <= off ->
  (Z.to_nat ((blen v - off) / 8192) <= fuel1)%nat -> (Z.to_nat ((blen v - off) / 8192) <= fuel2)%nat ->
  p_file_loop fuel1 v vo off = p_file_loop fuel2 v vo off.
Proof.
  induction fuel1 as [|k1 IH]; intros fuel2 v vo off Hoff H1 H2.
  - destruct fuel2 as [|k2]; [reflexivity|]. cbn [p_file_loop].
    destruct (off + 8192 <=? blen v) eqn:E; [lia|reflexivity].
  - destruct fuel2 as [|k2]; cbn [p_file_loop].
    + destruct (off + 8192 <=? blen v) eqn:E; [lia|reflexivity].
    + destruct (off + 8192 <=? blen v) eqn:E; [|reflexivity]. f_equal. apply IH; lia.
Qed.

Definition shift_all (d : Z) (l : list tuple_obs) := map (shift_obs d) l.

Lemma p_tuple_shift v po d : option_map (shift_obs d) (p_tuple v po) = p_tuple v (po + d).
Proof. unfold p_tuple. destruct (_ <? _); [reflexivity|]. destruct (_ >? _); reflexivity. Qed.

Lemma p_page_shift v po d : shift_all d (p_page v po) = p_page v (po + d).
Proof.
  unfold p_page. destruct (_ <? _); [reflexivity|]. destruct (negb _); [reflexivity|].
  unfold shift_all. rewrite !flat_map_concat_map, concat_map, map_map. f_equal. apply map_ext. intros it.
  unfold p_item_tuple. destruct (_ || _); [reflexivity|]. destruct (_ || _); [reflexivity|].
  rewrite <- p_tuple_shift. destruct (p_tuple _ po); reflexivity.
Qed.

Lemma filter_shift f d l : (forall o, f (shift_obs d o) = f o) ->
  filter f (shift_all d l) = shift_all d (filter f l).
Proof.
  intros H. unfold shift_all. induction l as [|o l IH]; [reflexivity|]. cbn [map filter]. rewrite H.
  destruct (f o); cbn [map]; rewrite IH; reflexivity.
Qed.

Lemma shift_all_app d a b : shift_all d (a ++ b) = shift_all d a ++ shift_all d b.
Proof. apply map_app. Qed.

Lemma p_file_loop_app_r : forall fuel f1 f2 vo off, blen f1 mod 8192 = 0 -> 0 <= off ->
  p_file_loop fuel (f1 ++ f2) vo (blen f1 + off) = shift_all (blen f1) (p_file_loop fuel f2 vo off).
Proof.
  induction fuel as [|k IH]; intros f1 f2 vo off H1 Hoff; cbn [p_file_loop]; [reflexivity|].
  bl. pose proof (blen_nonneg f1).
  replace (blen f1 + off + 8192 <=? blen f1 + blen f2) with (off + 8192 <=? blen f2) by lia.
  destruct (off + 8192 <=? blen f2) eqn:E; [|reflexivity].
  rewrite shift_all_app. f_equal.
  - rewrite sub_app_r by lia.
    replace (blen f1 + off - blen f1) with off by lia. replace (blen f1 + off + 8192 - blen f1) with (off + 8192) by lia.
    rewrite <- filter_shift by (intros o; reflexivity). f_equal.
    rewrite p_page_shift. f_equal. lia.
  - replace (blen f1 + off + 8192) with (blen f1 + (off + 8192)) by lia. apply IH; lia.
Qed.

Lemma p_file_loop_app_l : forall fuel f1 f2 vo off, blen f1 mod 8192 = 0 -> 0 <= off -> off mod 8192 = 0 ->
  (Z.to_nat ((blen f1 - off) / 8192) <= fuel)%nat -> off <= blen f1 ->
  p_file_loop (fuel + Z.to_nat (blen f2 / 8192)) (f1 ++ f2) vo off =
  p_file_loop fuel f1 vo off ++ shift_all (blen f1) (p_file_loop (Z.to_nat (blen f2 / 8192)) f2 vo 0).
Proof.
  induction fuel as [|k IH]; intros f1 f2 vo off H1 Hoff Hm Hf Hle.
  - assert (off = blen f1) by lia. subst off. cbn [Nat.add p_file_loop app].
    rewrite <- p_file_loop_app_r by lia. f_equal. lia.
  - cbn [Nat.add p_file_loop]. bl. pose proof (blen_nonneg f2).
    destruct (off + 8192 <=? blen f1) eqn:E.
    + destruct (off + 8192 <=? blen f1 + blen f2) eqn:E2; [|lia].
      rewrite sub_app_l by lia. rewrite <- app_assoc. f_equal. apply IH; lia.
    + assert (off = blen f1) by lia. subst off. cbn [app].
      pose proof (p_file_loop_app_r (S (k + Z.to_nat (blen f2 / 8192))) f1 f2 vo 0 H1 ltac:(lia)) as HR.
      replace (blen f1 + 0) with (blen f1) in HR by lia. cbn [p_file_loop] in HR. bl. rewrite HR. f_equal.
      change (p_file_loop (S (k + Z.to_nat (blen f2 / 8192))) f2 vo 0 = p_file_loop (Z.to_nat (blen f2 / 8192)) f2 vo 0).
      apply p_file_loop_fuel; lia.
Qed.

Theorem p_file_concat f1 f2 vo : blen f1 mod 8192 = 0 ->
  p_file (f1 ++ f2) vo = p_file f1 vo ++ shift_all (blen f1) (p_file f2 vo).
Proof.
  intros H1. unfold p_file. bl. pose proof (blen_nonneg f1). pose proof (blen_nonneg f2).
  replace (Z.to_nat ((blen f1 + blen f2) / 8192)) with (Z.to_nat (blen f1 / 8192) + Z.to_nat (blen f2 / 8192))%nat by lia.
  apply p_file_loop_app_l; lia.
Qed.

(* the side condition is necessary *)
Example concat_needs_whole_pages :
  exists f1 f2, p_file (f1 ++ f2) false <> p_file f1 false ++ shift_all (blen f1) (p_file f2 false).
Proof.
  (* f1 = one byte, f2 = a page holding one minimal tuple: the scan of f1 ++ f2 sees a shifted, invalid page *)
  set (t := {| tp_head := zeros 18; tp_natts := 0; tp_flags2 := 0; tp_infomask := 2304; tp_hoff := 24; tp_mid := zeros 1; tp_data := [] |}).
  set (pg := {| pg_lsn_etc := zeros 12; pg_upper := 8168; pg_special := 8192; pg_version := 4; pg_prune := zeros 4;
                pg_lps := [({| lp_off := 8168; lp_flags := 1; lp_len := 24 |}, Some t)];
                pg_body := zeros (8192 - 28 - 24) ++ enc_tuple t |}).
  exists [x00], (enc_page pg). vm_compute. discriminate.
Qed.
